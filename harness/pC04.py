"""C04 — NP2Converter never loses the original / idempotent over run histories.

Proofs in coq/C04 (file-level state machine); here: the real converter from
$IBLNPX_REPO/src on tiny synthetic NP2.4 / NP2.1 / NP1 recordings, driven through
histories of runs with harness-side fault injection at every patchable call site
(one site call = one model step), compared with the model run by run: outcome,
check_completed / already_exists / already_processed, the sequence of site calls
and the abstract state (absent / expected bytes / other) of every expected path.
The property predicate is evaluated directly on the implementation as well."""
import os
os.environ.setdefault("TQDM_DISABLE", "1")
import builtins
import gc
import hashlib
import json
import logging
import multiprocessing
import pathlib
import random
import shutil
from concurrent.futures import ProcessPoolExecutor
from pathlib import Path

import numpy as np

import common

PROP = "C04"
HEADER = "From Coq Require Import ZArith List.\nImport ListNotations.\nFrom IBL.C04 Require Import Run."
TRUSTED = [
    "Coq 8.16.1 kernel + vm_compute (no native_compute); all C04 theorems: Closed under the global context",
    "hand-written model coq/C04/Model.v of neuropixel.NP2Converter.process (steps = calls of Path.mkdir, open, "
    "_split2shanks, write_meta_data, check_NP24, Path.unlink, mtscomp.compress, Path.rename (.ch_tmp, .cbin_tmp), delete_NP24), tied "
    "to $IBLNPX_REPO/src by this run's correspondence (outcome, attributes, call sequence, per-path state)",
    "abstraction: a path is Complete iff its bytes equal the reference bytes of that path; the references come from "
    "a fault-free conversion of the same recording and are anchored independently (ap.bin = NumPy column gather "
    "of the original, every .cbin decompresses to its .bin, original .cbin decompresses to the original)",
    "atomicity: a crash is an exception between two site calls, or inside mtscomp.compress after the temporary "
    "file was opened (simulated by truncating it); power loss inside one write is not modelled",
    "mtscomp (zlib) compress/decompress is deterministic and lossless (its own check_after_compress is left on)",
    "harness/pC04.py fault injector, canonicaliser, oracle; extraction (ExtrOcamlBasic only) + harness/driver.ml; "
    "a sample of the same histories is re-evaluated by the kernel (vm_compute)",
]
NAME = "x"
UUID = "4f1e2a3b-5c6d-4e7f-8a9b-0c1d2e3f4a5b"      # a real v4 UUID: the server naming spikeglx.Reader supports
NWINDOW = 1200
FIX = common.REPO / "src" / "tests" / "fixtures"

# name: (kind code, meta fixture, shanks in the model universe, windows, original already compressed)
CONFIGS = {
    "np24s4w2": (0, "np2split/NP24_meta/_spikeglx_ephysData_g0_t0.imec0.ap.meta", 4, 2, False),
    "np24s1w3": (0, "sampleNP2.4_1shank_g0_t0.imec.ap.meta", 1, 3, False),
    "np24s1w1": (0, "sampleNP2.4_1shank_g0_t0.imec.ap.meta", 1, 1, False),
    "np24s4w1c": (0, "np2split/NP24_meta/_spikeglx_ephysData_g0_t0.imec0.ap.meta", 4, 1, True),
    "np21w2": (1, "np2split/NP21_meta/_spikeglx_ephysData_g0_t0.imec0.ap.meta", 0, 2, False),
    "np21w1c": (1, "np2split/NP21_meta/_spikeglx_ephysData_g0_t0.imec0.ap.meta", 0, 1, True),
    "np21w2c": (1, "np2split/NP21_meta/_spikeglx_ephysData_g0_t0.imec0.ap.meta", 0, 2, True),
    "np1w1": (2, "np2split/NP1_meta/_spikeglx_ephysData_g0_t0.imec0.ap.meta", 0, 1, False),
    # file names with a dataset UUID between the band label and the extension (and "ap" elsewhere in the name)
    "np21w2u": (1, "np2split/NP21_meta/_spikeglx_ephysData_g0_t0.imec0.ap.meta", 0, 2, False),
    "np21w1cu": (1, "np2split/NP21_meta/_spikeglx_ephysData_g0_t0.imec0.ap.meta", 0, 1, True),
    "np24s1w1u": (0, "sampleNP2.4_1shank_g0_t0.imec.ap.meta", 1, 1, False),
    # probes that are not NP2: 3A, 3B2 and NPultra metadata, with and without their hardware lf file
    "np3Aw1": (2, "sample3A_g0_t0.imec.ap.meta", 0, 1, False),
    "np1w1h": (2, "np2split/NP1_meta/_spikeglx_ephysData_g0_t0.imec0.ap.meta", 0, 1, False),
    "npUw1": (2, "sampleNPultra_g0_t0.imec0.ap.meta", 0, 1, False),
    "npUw1h": (2, "sampleNPultra_g0_t0.imec0.ap.meta", 0, 1, False),
}
NS_OF_W = {1: 1200, 2: 1800, 3: 2400}
# (stem, what follows the band label) of the recording's file names; default ("x", "")
NAMES = {"np21w2u": ("snapshot_g0_t0.imec0", "." + UUID), "np21w1cu": ("x", "." + UUID),
         "np24s1w1u": ("capture.imec0", "." + UUID)}
HWLF = {"np1w1h", "npUw1h"}          # a hardware lf recording (x.lf.bin, x.lf.meta) lies next to the ap file
FK = {".bin": 0, ".cbin": 1, ".cbin_tmp": 2, ".ch": 3, ".meta": 4, ".ch_tmp": 5}
FKN = ["bin", "cbin", "cbin_tmp", "ch", "meta", "ch_tmp"]
NFK = len(FKN)


class Injected(Exception):
    pass


# ----------------------------------------------------------------------------
# layout <-> model paths
# ----------------------------------------------------------------------------
# init_params(extra=...): suffix of the shank folder names; fixed per task (set by the worker)
LAYOUT = {"extra": "", "stem": NAME, "uu": ""}


def set_layout(cfg, extra=""):
    LAYOUT["extra"] = extra
    LAYOUT["stem"], LAYOUT["uu"] = NAMES.get(cfg, (NAME, ""))


def sub_list(mask):
    """init_params(nshank=...) from the bit mask of a run (0 = parameter not given)"""
    return [k for k in range(8) if mask >> k & 1] if mask else None


def owner_path(root, oc, f):
    """model owner code, fkind code -> real path"""
    ext = "." + FKN[f]
    if oc == 1:
        return root / "probe00" / (LAYOUT["stem"] + ".ap" + LAYOUT["uu"] + ext)
    if oc == 2:
        return root / "probe00" / (LAYOUT["stem"] + ".ap" + LAYOUT["uu"] + ext).replace("ap", "lf")
    k, e = divmod(oc - 10, 2)
    fn = LAYOUT["stem"] + ".ap" + LAYOUT["uu"] + ext
    # the code names the lf file name.replace("ap", "lf"): every "ap" of the name, not only the band label
    return root / ("probe00" + chr(97 + k) + LAYOUT["extra"]) / (fn if e == 0 else fn.replace("ap", "lf"))


def universe(root, n):
    """[(code, real path)] in the order of Run.v `universe`"""
    out = []
    for oc in (1, 2):
        out += [(oc * 10 + f, owner_path(root, oc, f)) for f in range(NFK)]
    for k in range(n):
        out.append((1000 + k, root / ("probe00" + chr(97 + k) + LAYOUT["extra"])))
        for e in (0, 1):
            oc = 10 + 2 * k + e
            out += [(oc * 10 + f, owner_path(root, oc, f)) for f in range(NFK)]
    out.append((9000, owner_path(root, 1, 4)))     # PMark: the original's .meta is the reconstructor's
    return out


def pcode(root, p):
    """real path -> model path code (-1 unknown)"""
    try:
        rel = Path(p).resolve().relative_to(root)
    except ValueError:
        return -1
    parts = rel.parts
    if not parts or not parts[0].startswith("probe00"):
        return -1
    suf = parts[0][len("probe00"):]
    if suf and LAYOUT["extra"]:
        if not suf.endswith(LAYOUT["extra"]):
            return -1
        suf = suf[:-len(LAYOUT["extra"])]
    if len(parts) == 1:
        return 1000 + ord(suf) - 97 if len(suf) == 1 and suf.isalpha() else -1
    if len(parts) != 2:
        return -1
    fn = parts[1]
    for pre, e in ((LAYOUT["stem"] + ".ap" + LAYOUT["uu"], 0),
                   ((LAYOUT["stem"] + ".ap" + LAYOUT["uu"]).replace("ap", "lf"), 1)):
        if fn.startswith(pre + ".") and fn[len(pre):] in FK:
            f = FK[fn[len(pre):]]
            if suf == "":
                return (1 if e == 0 else 2) * 10 + f
            if len(suf) == 1 and suf.isalpha():
                return (10 + 2 * (ord(suf) - 97) + e) * 10 + f
    return -1


def sha(p):
    return hashlib.sha1(Path(p).read_bytes()).hexdigest()


def digest(root):
    d = {}
    for p in sorted(root.rglob("*")):
        rel = str(p.relative_to(root))
        d[rel] = "dir" if p.is_dir() else sha(p)
    return d


# ----------------------------------------------------------------------------
# recordings and reference contents
# ----------------------------------------------------------------------------
def make_recording(root, cfg):
    kind, fixture, n, w, compressed = CONFIGS[cfg]
    ns = NS_OF_W[w]
    d = root / "probe00"
    d.mkdir(parents=True)
    meta = (FIX / fixture).read_text()
    fs = None
    for l in meta.splitlines():
        if l.startswith("imSampRate="):
            fs = float(l.split("=")[1])
    lines = []
    for l in meta.splitlines():
        if l.startswith("fileTimeSecs="):
            l = "fileTimeSecs=%r" % (ns / fs)
        if l.startswith("fileSizeBytes="):
            l = "fileSizeBytes=%d" % (ns * 385 * 2)
        lines.append(l)
    set_layout(cfg)
    owner_path(root, 1, 4).write_text("\n".join(lines) + "\n")
    # low-entropy but channel- and time-dependent samples (cheap for zlib), a few large values
    t = np.arange(ns)[:, None]
    c = np.arange(385)[None, :]
    dat = ((((t // 16) * 3 + c * 5) % 200) - 100 + 7 * (c % 13)).astype(np.int16)
    dat[::97, ::31] = 3000
    dat[5::211, 3::17] = -2900
    dat[:, 384] = ((np.arange(ns) // 7) % 2) * 64
    dat.tofile(owner_path(root, 1, 0))
    if cfg in HWLF:         # the probe's own lf recording: anything, it must simply not change
        (dat[::12, :] // 2).astype(np.int16).tofile(owner_path(root, 2, 0))
        owner_path(root, 2, 4).write_text("\n".join(lines).replace("imSampRate=", "imSampRate=2500\n~was=") + "\n")
    return dat


def quiet():
    """Once per process: no logging, no progress bars, single-threaded mtscomp
    (same bytes, far cheaper on a loaded machine)."""
    import mtscomp
    logging.disable(logging.CRITICAL)
    if not getattr(mtscomp, "_c04_quiet", False):
        real = mtscomp.compress

        def compress(path, out=None, outmeta=None, **kw):
            kw.setdefault("quiet", True)
            kw.setdefault("n_threads", 1)
            return real(path, out=out, outmeta=outmeta, **kw)
        mtscomp.compress = compress
        mtscomp.tqdm = lambda it=None, **k: it
        mtscomp._c04_quiet = True


def reference_recon(cdir, ob, n, exp):
    """NP2Reconstructor on the split (original and its .meta removed), then a conversion of the recovered
    file: reference bytes of the reconstructed .meta and of the metadata derived from it."""
    from neuropixel import NP2Converter, NP2Reconstructor
    rc = cdir / "recon"
    shutil.copytree(cdir / "ref0", rc)
    (rc / "probe00" / ob.name).unlink()
    (rc / "probe00" / ob.name).with_suffix(".meta").unlink()
    rec = NP2Reconstructor(rc, pname="probe00", compress=False)
    st = rec.process()
    assert st == 1, "reconstruction returned %r" % (st,)
    assert sha(rc / "probe00" / ob.name) == exp[10], "reconstruction does not restore the original bytes"
    exp[9000] = sha((rc / "probe00" / ob.name).with_suffix(".meta"))
    conv = NP2Converter(rc / "probe00" / ob.name, post_check=True, compress=False)
    conv.init_params(nwindow=NWINDOW)
    st = conv.process(overwrite=True)
    conv.sr.close()
    assert st == 1, "conversion of the reconstructed original returned %r" % (st,)
    for code, p in universe(rc, n):
        if code < 1000 and code // 10 != 1 and p.exists():
            h = sha(p)
            if code % 10 == 4:
                exp[-code] = h
            else:
                assert h == exp[code], "conversion of the reconstructed original writes other data (%s)" % p.name


def build_reference(base, cfg):
    """Creates base/<cfg>/init (the directory as the user finds it) and returns
    {path code: sha1 of the expected content}; raises AssertionError when the
    fault-free conversion is not a valid conversion (independent anchoring)."""
    import mtscomp
    import spikeglx
    from neuropixel import NP2Converter
    quiet()
    kind, fixture, n, w, compressed = CONFIGS[cfg]
    cdir = base / cfg
    raw = cdir / "raw"
    dat = make_recording(raw, cfg)
    exp = {}
    ob = owner_path(raw, 1, 0)
    if cfg in HWLF:
        exp[20] = sha(owner_path(raw, 2, 0))
        exp[24] = sha(owner_path(raw, 2, 4))
    exp[10] = sha(ob)
    exp[14] = sha(ob.with_suffix(".meta"))
    # original compressed in place (what compress_NP21 / a user does)
    oc = cdir / "oc"
    shutil.copytree(raw, oc)
    sr = spikeglx.Reader(oc / "probe00" / ob.name)
    sr.compress_file()
    sr.close()
    exp[11] = exp[12] = sha(owner_path(oc, 1, 1))
    exp[13] = exp[15] = sha(owner_path(oc, 1, 3))
    r = mtscomp.decompress(owner_path(oc, 1, 1), owner_path(oc, 1, 3))
    assert np.array_equal(r[:], dat), "compressed original does not decompress to the original"
    r.close()
    (oc / "probe00" / ob.name).unlink()
    init = cdir / "init"
    shutil.copytree(oc if compressed else raw, init)
    if kind != 2:
        for comp in (False, True):
            rd = cdir / ("ref%d" % comp)
            shutil.copytree(raw, rd)
            conv = NP2Converter(rd / "probe00" / ob.name, post_check=True, compress=comp)
            conv.init_params(nwindow=NWINDOW)
            st = conv.process()
            conv.sr.close()
            assert st == 1, "fault-free reference conversion returned %r" % (st,)
            for code, p in universe(rd, n):
                if code >= 1000 or code // 10 == 1 or not p.exists():
                    continue
                h = sha(p)
                assert exp.get(code, h) == h, "reference content of %s differs between runs" % p.name
                exp[code] = h
                if code % 10 == 1:
                    exp[code + 1] = h      # .cbin_tmp holds the bytes of the finished .cbin
                if code % 10 == 3:
                    exp[code + 2] = h      # .ch_tmp holds the bytes of the finished .ch
        if kind == 0:
            meta = spikeglx.read_meta_data(ob.with_suffix(".meta"))
            shank = spikeglx._map_channels_from_meta(meta)["shank"]
            labs = sorted(set(int(s) for s in shank))
            assert len(labs) == n, "fixture has %d shanks, config says %d" % (len(labs), n)
            for k in range(n):
                cols = np.r_[np.where(shank == labs[k])[0], 384]
                want = dat[:, cols].tobytes()
                assert hashlib.sha1(want).hexdigest() == exp[(10 + 2 * k) * 10], \
                    "shank %d ap.bin is not the column gather of the original" % k
                d1 = cdir / "ref1" / ("probe00" + chr(97 + k))
                r = mtscomp.decompress(owner_path(cdir / "ref1", 10 + 2 * k, 1), owner_path(cdir / "ref1", 10 + 2 * k, 3))
                assert r[:].tobytes() == want, "shank %d ap.cbin does not decompress to the gather" % k
                r.close()
            try:
                if not LAYOUT["uu"]:        # NP2Reconstructor globs "*ap.meta": it does not support UUID names
                    reference_recon(cdir, ob, n, exp)
            except AssertionError as e:
                exp["recon_error"] = str(e)
            except Exception as e:
                exp["recon_error"] = repr(e)
    return exp


# ----------------------------------------------------------------------------
# one real run with site logging / fault injection
# ----------------------------------------------------------------------------
class Sites:
    def __init__(self, root, n, crash, corrupt, exp, tform):
        self.root, self.n, self.crash, self.corrupt, self.exp = root, n, crash, corrupt, exp
        self.tform = tform
        self.i = 0
        self.trace = []
        self.aux = []
        self.in_compress = False
        self.in_delete = False
        self.verify_ok = False
        self.check_failed = False
        self.touched = False
        self.in_check = False
        self.logfile = None

    def hit(self, code):
        """a site call that cannot fail by itself: crash point, then counted"""
        self.pre()
        self.done(code)

    def pre(self):
        if self.crash is not None and self.i == self.crash:
            raise Injected()

    def done(self, code):
        self.i += 1
        self.trace.append(code)
        if self.logfile is not None:
            with builtins.open(self.logfile, "a") as f:
                f.write("%d " % code)

    def good(self, code):
        p = dict(universe(self.root, self.n)).get(code)
        return p is not None and p.is_file() and sha(p) in (self.exp.get(code), self.exp.get(-code, "-"))

    def shanks_good_now(self):
        for k in range(self.n):
            a = (10 + 2 * k) * 10
            if not ((self.good(a) or (self.good(a + 1) and self.good(a + 3))) and self.good(a + 4)):
                return False
        return True


class VerifyFailed(AssertionError):
    pass


def damage(p, ns, kind):
    """The adversary: damages AP samples of a shank ap.bin (never the sync column).
    0 / 1 / 2: one value in the first / a middle / the last frame;
    3: two values of one frame exchanged between two channels;  4: two values of one channel exchanged between
    two frames;  5: +k on one value and -k on another;  6: two whole channels exchanged.
    Kinds 3-6 keep every sum (over the frame, the channel or the file) unchanged."""
    size = p.stat().st_size
    row = size // ns
    if row < 6 or size != row * ns:
        with builtins.open(p, "r+b") as f:      # not a whole recording: flip the first bytes
            b = f.read(2)
            f.seek(0)
            f.write(bytes(x ^ 0x55 for x in b))
        return
    a = np.fromfile(p, dtype=np.int16).reshape(ns, row // 2)
    nc = a.shape[1] - 1                          # AP columns
    r0, r1 = ns // 3, (2 * ns) // 3
    if kind in (0, 1, 2):
        r, c = {0: (0, 0), 1: (ns // 2, 3), 2: (ns - 1, 0)}[kind]
        a[r, c] ^= 0x5555
    elif kind == 3:
        c = next(c for c in range(nc - 1) if a[r0, c] != a[r0, c + 1])
        a[r0, c], a[r0, c + 1] = a[r0, c + 1], a[r0, c]
    elif kind == 4:
        c, r2 = next((c, r2) for c in range(nc) for r2 in range(r0 + 1, ns) if a[r0, c] != a[r2, c])
        a[r0, c], a[r2, c] = a[r2, c], a[r0, c]
    elif kind == 5:
        a[r0, 1] += 37
        a[r1, 2] -= 37
    else:
        c = next(c for c in range(nc - 1) if not np.array_equal(a[:, c], a[:, c + 1]))
        a[:, [c, c + 1]] = a[:, [c + 1, c]]
    a.tofile(p)


class patched:
    """Installs the site wrappers for the duration of one method call of one converter."""

    def __init__(self, root, cfg, S, cpos=0):
        self.root, self.cfg, self.S, self.cpos = root, cfg, S, cpos

    def __enter__(self):
        import mtscomp
        import neuropixel
        import spikeglx
        from neuropixel import NP2Converter
        root, S, cpos = self.root, self.S, self.cpos
        kind, fixture, n, w, compressed = CONFIGS[self.cfg]
        corrupt = S.corrupt
        o_mkdir, o_unlink, o_rename = pathlib.Path.mkdir, pathlib.Path.unlink, pathlib.Path.rename
        o_split, o_check, o_delete = NP2Converter._split2shanks, NP2Converter.check_NP24, NP2Converter.delete_NP24
        o_wmeta, o_compress = spikeglx.write_meta_data, mtscomp.compress
        self.saved = (o_mkdir, o_unlink, o_rename, o_split, o_check, o_delete, o_wmeta, o_compress)

        def mkdir(self, *a, **k):
            if not S.in_compress:
                c = pcode(root, self)
                if c >= 1000:
                    S.hit(100000 + c - 1000)
            return o_mkdir(self, *a, **k)

        def fopen(file, *a, **k):
            S.hit(200000 + pcode(root, file))
            return builtins.open(file, *a, **k)

        def split(self, chunk, etype="ap"):
            S.hit(300000 + (0 if etype == "ap" else 1))
            return o_split(self, chunk, etype=etype)

        def wmeta(md, md_file):
            S.pre()
            res = o_wmeta(md, md_file)
            S.done(400000 + pcode(root, md_file) // 10)
            return res

        def check(self):
            if corrupt is not None:
                p = owner_path(root, 10 + 2 * corrupt, 0)
                S.hit(500000 + pcode(root, p))
                if p.exists():
                    damage(p, NS_OF_W[w], cpos)
                    S.touched = True
            S.pre()                        # interruption before the method is entered
            S.done(650000)                 # check_NP24 entered (it clears check_completed first)
            S.in_check = True
            try:
                res = o_check(self)        # a failed comparison raises: the step is not counted
            except Injected:
                raise
            except Exception as e:         # AssertionError, or shape/IO errors on truncated / missing files
                S.check_failed = True
                raise VerifyFailed(repr(e))
            finally:
                S.in_check = False
            S.done(600000)
            S.verify_ok = True
            return res

        o_wg = neuropixel.WindowGenerator
        self.o_wg = o_wg

        def wgen(*a, **k):
            if S.in_check:                 # inside the real check_NP24, after its own first statements
                S.in_check = False
                S.pre()
            return o_wg(*a, **k)

        def unlink(self, missing_ok=False):
            c = pcode(root, self)
            if not S.in_delete:
                S.pre()
            if c in (10, 11) and self.exists():
                # an original is about to be removed: what is on disk right now?
                if kind == 0:
                    okn = S.shanks_good_now()
                else:
                    okn = c == 10 and S.good(11) and S.good(13)
                S.aux.append(["unlink_orig", c, int(S.verify_ok), int(okn), int(S.in_delete)])
            res = o_unlink(self, missing_ok=missing_ok)
            if not S.in_delete:
                S.done(700000 + 2 * c + (1 if missing_ok else 0))
            return res

        def compress(path, out=None, outmeta=None, **kw):
            oc = pcode(root, path) // 10
            S.hit(800000 + oc)
            mid = S.crash is not None and S.i == S.crash
            if mid:
                old = Path(outmeta).read_bytes() if Path(outmeta).exists() else None
            S.in_compress = True
            try:
                res = o_compress(path, out=out, outmeta=outmeta, **kw)
            finally:
                S.in_compress = False
            if mid:
                sz = Path(out).stat().st_size
                with builtins.open(out, "r+b") as f:
                    f.truncate(sz // 2)
                if old is None:
                    o_unlink(Path(outmeta))
                else:
                    Path(outmeta).write_bytes(old)
                raise Injected()
            S.done(900000 + oc)
            return res

        def rename(self, target):
            S.pre()
            res = o_rename(self, target)
            c = pcode(root, self)
            S.done((1200000 if c % 10 == 5 else 1000000 if c % 10 == 2 else 1300000) + c // 10)
            return res

        def delete(self):
            S.pre()
            S.in_delete = True
            try:
                res = o_delete(self)
            finally:
                S.in_delete = False
            S.done(1100000 + S.tform)
            return res

        pathlib.Path.mkdir, pathlib.Path.unlink, pathlib.Path.rename = mkdir, unlink, rename
        NP2Converter._split2shanks, NP2Converter.check_NP24, NP2Converter.delete_NP24 = split, check, delete
        spikeglx.write_meta_data, mtscomp.compress = wmeta, compress
        neuropixel.open = fopen
        neuropixel.WindowGenerator = wgen
        return self

    def __exit__(self, *a):
        import mtscomp
        import neuropixel
        import spikeglx
        from neuropixel import NP2Converter
        (pathlib.Path.mkdir, pathlib.Path.unlink, pathlib.Path.rename, NP2Converter._split2shanks,
         NP2Converter.check_NP24, NP2Converter.delete_NP24, spikeglx.write_meta_data, mtscomp.compress) = self.saved
        del neuropixel.open
        neuropixel.WindowGenerator = self.o_wg
        return False


def invoke(fn, obs):
    """Runs fn() and classifies how it ended."""
    try:
        st = fn()
        obs["outcome"] = 107 if st is None else 100 + int(st)
    except Injected:
        obs["outcome"] = 203
    except FileNotFoundError as e:
        obs["outcome"] = 201
        obs["exc"] = repr(e)
    except AssertionError as e:
        obs["outcome"] = 202
        obs["exc"] = repr(e)
    except Exception as e:
        obs["outcome"] = 209
        obs["exc"] = repr(e)


def release(conv):
    """Closes every handle the object still holds."""
    try:
        conv.sr.close()
    except Exception:
        pass
    for sh in (getattr(conv, "shank_info", None) or {}).values():
        for key, v in list(sh.items()):
            if key.endswith("open_file") or key == "sr":
                try:
                    v.close()
                except Exception:
                    pass


def reader_closed(conv):
    raw = getattr(getattr(conv, "sr", None), "_raw", None)
    m = getattr(raw, "_mmap", None)
    if m is not None:
        return bool(m.closed)
    f = getattr(raw, "cdata", None)
    return bool(getattr(f, "closed", False))


def run_real(root, cfg, exp, r):
    """One fresh converter object, one process() call.  Returns the observation."""
    from neuropixel import NP2Converter
    quiet()
    kind, fixture, n, w, compressed = CONFIGS[cfg]
    root = root.resolve()
    t = r["t"]
    if t == 0:
        tgt = owner_path(root, 1, 0)
    elif t == 1:
        tgt = owner_path(root, 1, 1)
    else:
        tgt = owner_path(root, 10 + 2 * (t - 2), 0)
        if not tgt.exists():
            tgt = tgt.with_suffix(".cbin")
    crash = None if r["crash"] < 0 else r["crash"]
    corrupt = None if r["corrupt"] < 0 else r["corrupt"]
    S = Sites(root, n, crash, corrupt, exp, 0 if t == 0 else 1)
    obs = {"checked": 0, "already": 2, "processed": 0}
    conv = None
    try:
        # the constructor takes str or Path: alternate (representation must not matter)
        conv = NP2Converter(str(tgt) if (r["post"] + r["comp"] + r["ow"]) % 2 else tgt,
                            post_check=bool(r["post"]), delete_original=bool(r["del"]),
                            compress=bool(r["comp"]))
        conv.init_params(nwindow=NWINDOW, nshank=sub_list(r.get("sub", 0)), extra=LAYOUT["extra"] or None)
    except FileNotFoundError:
        obs["outcome"] = 201
    except Exception as e:
        obs["outcome"] = 209
        obs["exc"] = repr(e)
    if conv is not None:
        with patched(root, cfg, S, r.get("cpos", 0)):
            if r.get("direct21") and kind == 1:
                # what pipelines do for probes whose shank map is not that of an NP2.1: the documented
                # assert_shanks=False variant (all channels of the file in on-disk order)
                invoke(lambda: conv._process_NP21(overwrite=bool(r["ow"]), assert_shanks=False), obs)
            else:
                invoke(lambda: conv.process(overwrite=bool(r["ow"])), obs)
        obs["checked"] = int(bool(getattr(conv, "check_completed", False)))
        if obs["outcome"] < 200:
            ae = getattr(conv, "already_exists", None)
            obs["already"] = 2 if ae is None else int(bool(ae))
        obs["processed"] = int(bool(getattr(conv, "already_processed", False)))
        release(conv)
        conv = None
        gc.collect()
    obs["trace"] = S.trace
    obs["aux"] = S.aux
    obs["verify_ok"] = int(S.verify_ok)
    obs.update(observe(root, n, exp))
    return obs


def run_object(root, cfg, exp, opts, calls):
    """ONE converter object, several method calls (process / check_NP24 / delete_NP24 / attribute
    assignment), exceptions caught in between.  Returns one observation per call.  A process() call
    on an object whose reader is closed kills the interpreter (SIGSEGV in np.memmap): it is run in
    a forked child and ends the sequence."""
    from neuropixel import NP2Converter
    quiet()
    kind, fixture, n, w, compressed = CONFIGS[cfg]
    root = root.resolve()
    tgt = owner_path(root, 1, 1 if compressed else 0)
    conv = NP2Converter(tgt, post_check=bool(opts[0]), delete_original=bool(opts[1]), compress=bool(opts[2]))
    conv.init_params(nwindow=NWINDOW, nshank=sub_list(opts[3] if len(opts) > 3 else 0),
                     extra=LAYOUT["extra"] or None)
    out = []
    ever_ok = False          # some check_NP24 on this object has succeeded
    fresh_ok = False         # ... and since then no check failed and no shank file was rewritten / damaged
    for c in calls:
        crash = None if c["crash"] < 0 else c["crash"]
        corrupt = None if c["corrupt"] < 0 else c["corrupt"]
        tform = 1 if str(getattr(conv, "ap_file", "")).endswith(".cbin") else 0
        S = Sites(root, n, crash, corrupt, exp, tform)
        obs = {"checked": 0, "already": 2, "processed": 0, "closed_before": int(reader_closed(conv)),
               "ever_ok_before": int(ever_ok), "fresh_ok_before": int(fresh_ok),
               # compress_NP21 has replaced self.sr by Reader(self.ap_file) (sort=True by default)
               "reopened": int(kind == 1 and not compressed and tform == 1)}
        ct = c["ct"]
        if ct == 0:
            fn = lambda: conv.process(overwrite=bool(c["ow"]))
        elif ct == 1:
            fn = lambda: conv.check_NP24()
        elif ct == 2:
            fn = lambda: conv.delete_NP24()
        else:
            def fn():
                conv.post_check, conv.delete_original, conv.compress = bool(c["post"]), bool(c["del"]), bool(c["comp"])
        died = False
        if ct in (0, 1) and obs["closed_before"]:  # never read through a closed reader in this process
            log = root.parent / (root.name + ".sitelog")
            log.write_text("")
            S.logfile = log
            pid = os.fork()
            if pid == 0:
                try:
                    with patched(root, cfg, S, c.get("cpos", 0)):
                        invoke(fn, obs)
                    (root.parent / (root.name + ".childobs")).write_text(json.dumps(
                        [obs.get("outcome"), obs.get("exc", ""), int(bool(conv.check_completed)),
                         getattr(conv, "already_exists", None), int(S.verify_ok), int(S.check_failed)]))
                finally:
                    os._exit(0)
            _, status = os.waitpid(pid, 0)
            S.trace = [int(x) for x in log.read_text().split()]
            co = root.parent / (root.name + ".childobs")
            if os.WIFSIGNALED(status) or not co.exists():
                obs["outcome"] = 209
                obs["exc"] = "interpreter killed by signal %s" % (os.WTERMSIG(status) if os.WIFSIGNALED(status) else "?")
                died = True
            else:
                oc, exc, chk, ae, vok, cfail = json.loads(co.read_text())
                obs["outcome"], obs["exc"] = oc, exc
                if oc < 200 and ct == 0:
                    obs["already"] = 2 if ae is None else int(bool(ae))
                S.verify_ok, S.check_failed = bool(vok), bool(cfail)
                obs["checked_child"] = chk
                died = True      # the parent's object did not see the call: stop here
                co.unlink()
            log.unlink()
            obs["checked"] = obs.pop("checked_child", int(bool(getattr(conv, "check_completed", False))))
        else:
            with patched(root, cfg, S, c.get("cpos", 0)):
                invoke(fn, obs)
            obs["checked"] = int(bool(getattr(conv, "check_completed", False)))
            if ct == 0 and obs["outcome"] < 200:
                ae = getattr(conv, "already_exists", None)
                obs["already"] = 2 if ae is None else int(bool(ae))
            # drop file handles of an interrupted call (a user's except: clause would leave them to the GC)
            for sh in (getattr(conv, "shank_info", None) or {}).values():
                for key in [k for k in sh if k.endswith("open_file")]:
                    try:
                        sh[key].close()
                    except Exception:
                        pass
        if S.verify_ok:
            ever_ok = fresh_ok = True
        if S.check_failed or (S.touched and not S.verify_ok) or \
                (any(200000 <= t < 300000 for t in S.trace) and not S.verify_ok):
            fresh_ok = False
        obs["trace"] = S.trace
        obs["aux"] = S.aux
        obs["verify_ok"] = int(S.verify_ok)
        obs["check_failed"] = int(S.check_failed)
        obs.update(observe(root, n, exp))
        out.append(obs)
        if died:
            break
    release(conv)
    conv = None
    gc.collect()
    return out


def run_op(root, cfg, exp, r):
    """User operations between conversions: 100 = remove the leftover x.ap.meta, 101 =
    NP2Reconstructor(root, "probe00", compress=r["comp"]).process()"""
    quiet()
    kind, fixture, n, w, compressed = CONFIGS[cfg]
    root = root.resolve()
    obs = {"checked": 0, "already": 2, "processed": 0, "trace": [], "aux": [], "verify_ok": 0}
    if r["t"] == 100:
        owner_path(root, 1, 4).unlink(missing_ok=True)
        obs["outcome"] = 107
    else:
        from neuropixel import NP2Reconstructor
        rec = None
        try:
            rec = NP2Reconstructor(root, pname="probe00", compress=bool(r["comp"]))
            invoke(lambda: rec.process(), obs)
        except Exception as e:
            obs["outcome"] = 209
            obs["exc"] = repr(e)
        for sh in (getattr(rec, "shank_info", None) or {}).values():
            try:
                sh["sr"].close()
            except Exception:
                pass
        rec = None
        gc.collect()
    obs.update(observe(root, n, exp))
    return obs


def observe(root, n, exp):
    uni = universe(root, n)
    known = set()
    state = []
    for code, p in uni:
        known.add(p)
        if code == 9000:
            state.append(2 if p.is_file() and sha(p) == exp.get(9000) else 0)
        elif code >= 1000:
            state.append(2 if p.is_dir() else 0)
        elif not p.exists():
            state.append(0)
        else:
            # metadata has two valid contents: derived from SpikeGLX's own .meta (exp[code]) or from the
            # .meta NP2Reconstructor writes (exp[-code]; for the original itself exp[9000])
            h = sha(p)
            state.append(2 if h in (exp.get(code), exp.get(-code, "-"), exp.get(9000, "-") if code == 14 else "-")
                         else 1)
    extra = [str(p.relative_to(root)) for p in sorted(root.rglob("*"))
             if p not in known and p != root / "probe00"]
    return {"state": state, "extra": extra}


def measure_sync_copy(base, cfg, exp):
    """F-C04-c (observation): is the sync column of shanks b-d covered by check_NP24?  Damages it in
    probe00b and calls check_NP24 on the object that just converted.  Measured, never a failure."""
    from neuropixel import NP2Converter
    kind, fixture, n, w, compressed = CONFIGS[cfg]
    d = base / cfg / "syncprobe"
    shutil.copytree(base / cfg / "init", d)
    conv = NP2Converter(owner_path(d, 1, 0), post_check=False, compress=False)
    conv.init_params(nwindow=NWINDOW)
    try:
        conv.process()
        p = owner_path(d, 12, 0)
        row = p.stat().st_size // NS_OF_W[w]
        with builtins.open(p, "r+b") as f:
            f.seek(5 * row + row - 2)
            b = f.read(2)
            f.seek(5 * row + row - 2)
            f.write(bytes(x ^ 0x55 for x in b))
        try:
            conv.check_NP24()
            return False
        except AssertionError:
            return True
    finally:
        release(conv)
        shutil.rmtree(d, ignore_errors=True)


def probe_nsamples(base, cfg, exp):
    """init_params(nsamples=N) with N shorter than the recording (implementation only: the model has no
    'first N samples' file state).  Clause: after ANY history of calls with nsamples < ns the original still
    exists unchanged (the shank files cannot hold every sample).  Returns the histories that lost it."""
    from neuropixel import NP2Converter
    kind, fixture, n, w, compressed = CONFIGS[cfg]
    bad = []
    hists = [[("new", 1, 1, 0), ("process", 0)],
             [("new", 1, 1, 1), ("process", 0)],
             [("new", 1, 1, 0), ("process", 0), ("delete",)],
             [("new", 1, 0, 0), ("process", 0), ("set_delete",), ("delete",), ("process", 1)],
             [("new", 1, 1, 0), ("process", 0), ("new", 1, 1, 1), ("process", 1)],
             [("new", 0, 1, 0), ("process", 0), ("check",), ("delete",)]]
    for j, h in enumerate(hists):
        d = base / cfg / ("nsprobe%d" % j)
        shutil.copytree(base / cfg / "init", d)
        conv = None
        log = []
        try:
            for op in h:
                try:
                    if op[0] == "new":
                        if conv is not None:
                            release(conv)
                        conv = NP2Converter(owner_path(d, 1, 0), post_check=bool(op[1]), delete_original=bool(op[2]),
                                            compress=bool(op[3]))
                        conv.init_params(nsamples=NWINDOW, nwindow=NWINDOW)
                    elif op[0] == "process":
                        log.append(conv.process(overwrite=bool(op[1])))
                    elif op[0] == "delete":
                        conv.delete_NP24()
                    elif op[0] == "check":
                        conv.check_NP24()
                    elif op[0] == "set_delete":
                        conv.delete_original = True
                except Exception as e:
                    log.append(repr(e)[:80])
            st = st_of(cfg, observe(d.resolve(), n, exp))
            if st[10] != 2:
                bad.append({"history": [list(x) for x in h], "returned": [str(x) for x in log], "original_state": st[10]})
        finally:
            if conv is not None:
                release(conv)
            shutil.rmtree(d, ignore_errors=True)
    return {"lost": bad, "histories": len(hists)}


def name_cases(ctx):
    """file names for the lf_name correspondence: Python str.replace("ap", "lf") against the model"""
    rng = ctx.rng
    names = ["x.ap.bin", "x.ap.%s.cbin" % UUID, "snapshot_g0_t0.imec0.ap.%s.bin" % UUID, "rec.imec0.bin", "", "a", "p",
             "ap", "pa", "aap", "apap", "aapp", "apa", "a.p", "AP.bin", "capture.imec0.ap.meta", "_spikeglx_ephysData_g0_t0.imec0.ap.bin"]
    for _ in range(200 if ctx.thorough() else 40):
        names.append("".join(rng.choice("apAP.lf_x0") for _i in range(rng.randrange(0, 14))))
    return names


def probe_noap_name(base, cfg):
    """A recording whose file name contains no "ap" (spikeglx.Reader accepts any name): does a plain first
    run produce the lf file?  Implementation only (F-C04-i)."""
    from neuropixel import NP2Converter
    d = base / cfg / "noap"
    shutil.copytree(base / cfg / "raw", d)
    ap, meta = owner_path(d, 1, 0), owner_path(d, 1, 4)
    ap2 = ap.with_name("rec.imec0.bin")
    ap.rename(ap2)
    meta.rename(ap2.with_suffix(".meta"))
    conv = None
    out = {}
    try:
        conv = NP2Converter(ap2, compress=False)
        conv.init_params(nwindow=NWINDOW)
        try:
            out["status"] = int(conv.process())
        except Exception as e:
            out["status"] = repr(e)
        out["files"] = sorted(p.name for p in ap2.parent.iterdir())
    finally:
        if conv is not None:
            release(conv)
        shutil.rmtree(d, ignore_errors=True)
    return out


def enc_obs(o):
    return [o["outcome"], o["checked"], o["already"], o["processed"], len(o["trace"])] + o["trace"] + o["state"]


def enc_hist(cfg, runs):
    kind, fixture, n, w, compressed = CONFIGS[cfg]
    out = [kind, n, w, 2 if cfg in HWLF else int(compressed)]
    for r in runs:
        out += [r["t"], r["post"], r["del"], r["comp"], r["ow"], r["crash"], r["corrupt"], r.get("sub", 0)]
    return out


# ----------------------------------------------------------------------------
# property predicate on the implementation's observations (no model involved)
# ----------------------------------------------------------------------------
def st_of(cfg, o):
    kind, fixture, n, w, compressed = CONFIGS[cfg]
    codes = [c for c, _ in universe(Path("/"), n)]
    return dict(zip(codes, o["state"]))


def recoverable(cfg, s):
    kind, fixture, n, w, compressed = CONFIGS[cfg]
    if s[10] == 2 or (s[11] == 2 and s[13] == 2):
        return True
    if kind == 0 and n > 0:
        return all((s[a] == 2 or (s[a + 1] == 2 and s[a + 3] == 2)) and s[a + 4] == 2
                   for a in ((10 + 2 * k) * 10 for k in range(n)))
    return False


def outputs_valid(cfg, r, s):
    """state after a completed conversion with these options"""
    kind, fixture, n, w, compressed = CONFIGS[cfg]
    shanks = sub_list(r.get("sub", 0)) or list(range(n))
    owners = [2] if kind == 1 else [10 + 2 * k + e for k in shanks for e in (0, 1)]
    bad = []
    for oc in owners:
        a = oc * 10
        if s[a + 4] != 2:
            bad.append("meta of owner %d" % oc)
        if r["comp"]:
            if not (s[a + 1] == 2 and s[a + 3] == 2 and s[a] == 0 and s[a + 2] == 0 and s[a + 5] == 0):
                bad.append("compressed output of owner %d" % oc)
        elif s[a] != 2:
            bad.append("binary output of owner %d" % oc)
    if kind == 0 and any(s[1000 + k] != 2 for k in shanks):
        bad.append("shank folder")
    if kind == 1 and r["comp"] and r["t"] == 0 and not (s[10] == 0 and s[11] == 2 and s[13] == 2):
        bad.append("original not compressed in place")
    return bad


def oracle(ctx, cfg, runs, obs, pre0, seen):
    """pre0 = state vector before the first run.  Reports each failing (history, clause) once."""
    kind, fixture, n, w, compressed = CONFIGS[cfg]
    prev = pre0
    prev_complete = False
    prev_sub = 0
    meta_dropped = False
    for i, (r, o) in enumerate(zip(runs, obs)):
        s = st_of(cfg, o)
        p = dict(zip(s.keys(), prev))
        case = {"cfg": cfg, "runs": runs[:i + 1]}
        key = json.dumps(case, sort_keys=True)

        def fail(what, tags):
            if (key, what) not in seen:
                seen.add((key, what))
                ctx.fail(what, case, tags)
        tags = {"kind": kind, "clause": "", "crash": int(r["crash"] >= 0), "ow": r["ow"]}
        if r["t"] >= 100:
            # user operations: removing the leftover .meta; NP2Reconstructor (only generated when every
            # shank folder is complete and the original is gone)
            if r["t"] == 100:
                meta_dropped = True
            else:
                meta_dropped = False
                back = (s[11] == 2 and s[13] == 2 and s[10] == 0) if r["comp"] else s[10] == 2
                if o["outcome"] != 101 or not back or s[14] != 2:
                    fail("NP2Reconstructor did not restore the original byte for byte from the complete shank "
                         "folders (outcome %s %s)" % (o["outcome"], o.get("exc", "")), dict(tags, clause="reconstruct"))
            if o["extra"]:
                fail("unexpected files appear: %s" % o["extra"][:3], dict(tags, clause="extra"))
            prev_complete = False
            prev = list(s.values())
            continue
        if o["processed"] and r["t"] < 2:
            fail("a full recording is taken for an already split shank file (already_processed)",
                 dict(tags, clause="processed_decision"))
        dirs_before = [p[1000 + k] == 2 for k in range(n)]
        partial_prep = any(dirs_before) and not all(dirs_before)
        changed = list(s.values()) != prev or bool(o.get("digest_changed"))
        fault = r["crash"] >= 0 or r["corrupt"] >= 0
        input_present = (p[10] == 2) if r["t"] == 0 else (p[11] == 2 and p[13] == 2) if r["t"] == 1 else True
        if o["extra"]:
            fail("unexpected files appear: %s" % o["extra"][:3], dict(tags, clause="extra"))
        if not recoverable(cfg, s):
            fail("original samples are no longer recoverable after the run", dict(tags, clause="recoverable"))
        if s[14] != 2 and not meta_dropped:
            fail("original metadata changed or removed", dict(tags, clause="meta"))
        for ev in o["aux"]:
            if ev[0] == "unlink_orig" and not (ev[3] and (ev[2] or kind != 0)):
                fail("original removed before verification / lossless compression completed "
                     "(verified=%d)" % ev[2], dict(tags, clause="delete_before_verify"))
        if o["checked"] and not o["verify_ok"]:
            fail("check_completed set without a successful comparison", dict(tags, clause="checked"))
        oc = o["outcome"]
        if oc in (100, 99, 201) and changed:
            fail("run reported %s but changed the directory" %
                 ("nothing done" if oc == 100 else "not an NP2 probe" if oc == 99 else "missing input"),
                 dict(tags, clause="status0_changed_disk", partial_prepare=int(partial_prep)))
        if r["t"] >= 2 and oc != 100:
            fail("already split input: status %d" % oc, dict(tags, clause="split_input"))
        if kind == 2 and r["t"] < 2 and input_present and oc != 99:
            fail("NP1 input: status %d" % oc, dict(tags, clause="np1"))
        full = (1 << n) - 1
        partial = kind == 0 and r.get("sub", 0) not in (0, full)
        # a split of only some shanks can never pass the comparison with the full-width original
        expect_assert = partial and bool(r["post"]) and r["t"] < 2
        if expect_assert and oc == 101:
            fail("verification accepted a split that does not cover every channel of the original",
                 dict(tags, clause="subset_verify"))
        if not fault and oc >= 200 and not (oc == 201 and not input_present) and not (oc == 202 and expect_assert):
            fail("fault-free run raised (%d %s)" % (oc, o.get("exc", "")), dict(tags, clause="raised"))
        if r["corrupt"] >= 0 and r["post"] and r["crash"] < 0 and kind == 0 and r["t"] < 2 and input_present \
                and r["corrupt"] < n and oc not in (100, 202):
            fail("damaged shank file passed verification (outcome %d)" % oc, dict(tags, clause="verify_missed"))
        if prev_complete and not r["ow"] and not fault and input_present and r["t"] < 2 and oc != 100 \
                and r.get("sub", 0) == prev_sub:
            fail("repeated run after a complete run did not report 'nothing done' (%d)" % oc,
                 dict(tags, clause="rerun_status"))
        nothing_there = (kind == 1 and p[20] == 0 and p[21] == 0) or \
            (kind == 0 and not any(p[1000 + k] == 2 for k in (sub_list(r.get("sub", 0)) or range(n))))
        if not r["ow"] and not fault and input_present and r["t"] < 2 and kind != 2 and nothing_there \
                and not expect_assert and oc != 101:
            fail("first run on a directory without any output did not convert (%d %s)" % (oc, o.get("exc", "")),
                 dict(tags, clause="first_run"))
        if r["ow"] and not fault and input_present and r["t"] < 2 and kind != 2 and expect_assert:
            if oc != 202:
                fail("forced re-run of a partial split did not end in the verification error (%d)" % oc,
                     dict(tags, clause="subset_verify"))
        elif r["ow"] and not fault and input_present and r["t"] < 2 and kind != 2:
            if oc != 101:
                fail("forced re-run did not complete (%d %s)" % (oc, o.get("exc", "")),
                     dict(tags, clause="forced_rerun"))
            else:
                bad = outputs_valid(cfg, r, s)
                if bad:
                    fail("forced re-run left invalid output: %s" % bad[:3], dict(tags, clause="forced_rerun_valid"))
        if oc == 101 and kind != 2:
            bad = outputs_valid(cfg, r, s)
            if bad:
                fail("completed run left invalid output: %s" % bad[:3], dict(tags, clause="complete_valid"))
        if oc == 101:
            prev_sub = r.get("sub", 0)
        prev_complete = (oc == 101) or (prev_complete and not changed)
        prev = list(s.values())


def mkcall(ct=0, post=0, dele=0, comp=0, ow=0, crash=-1, corrupt=-1, cpos=0):
    """ct: 0 process(overwrite=ow) | 1 check_NP24() | 2 delete_NP24() | 3 assign post/del/comp"""
    return {"ct": ct, "post": post, "del": dele, "comp": comp, "ow": ow, "crash": crash, "corrupt": corrupt,
            "cpos": cpos}


def enc_objseq(cfg, opts, calls):
    kind, fixture, n, w, compressed = CONFIGS[cfg]
    out = [10 + kind, n, w, int(compressed)] + [int(x) for x in (list(opts) + [0])[:4]]
    for c in calls:
        out += [c["ct"], c["post"], c["del"], c["comp"], c["ow"], c["crash"], c["corrupt"]]
    return out


def oracle_object(ctx, cfg, opts, calls, obs, pre0, seen):
    """Property clauses for several calls on ONE object.  Tags say whether the failing call was made
    on an object that had already closed its reader (after_closed) and whether check_completed was
    stale (true although the last check failed / the shank files were rewritten since)."""
    kind, fixture, n, w, compressed = CONFIGS[cfg]
    cur_opts = tuple(opts)
    prev_state = list(pre0)
    for i, (c, o) in enumerate(zip(calls, obs)):
        if not o.get("state"):
            ctx.disagree("the converter object could not even be built / observed: %s" % o.get("exc", ""),
                         {"cfg": cfg, "object": 1, "opts": list(opts), "calls": calls[:i + 1]}, {"clause": "no_object"})
            break
        s = st_of(cfg, o)
        case = {"cfg": cfg, "object": 1, "opts": list(opts), "calls": calls[:i + 1]}
        key = json.dumps(case, sort_keys=True)
        stale = int(bool(o["checked"]) and not (o["verify_ok"] or (o["fresh_ok_before"] and not o["check_failed"]
                                                                   and not any(200000 <= t < 300000 or 500000 <= t < 600000
                                                                               for t in o["trace"]))))
        tags = {"kind": kind, "mode": "object", "after_closed": o["closed_before"], "stale_flag": stale, "clause": ""}

        def fail(what, tg):
            if (key, what) not in seen:
                seen.add((key, what))
                ctx.fail(what, case, tg)
        if o["extra"]:
            fail("unexpected files appear: %s" % o["extra"][:3], dict(tags, clause="extra"))
        if not recoverable(cfg, s):
            fail("original samples are no longer recoverable after the call", dict(tags, clause="recoverable"))
        if s[14] != 2:
            fail("original metadata changed or removed", dict(tags, clause="meta"))
        for ev in o["aux"]:
            if ev[0] == "unlink_orig" and kind == 0 and not (ev[3] and (ev[2] or o["fresh_ok_before"])):
                fail("original removed although the last verification did not succeed on the files now on disk",
                     dict(tags, clause="delete_before_verify"))
            if ev[0] == "unlink_orig" and kind == 1 and not ev[3]:
                fail("original removed before its compressed copy was complete", dict(tags, clause="delete_before_verify"))
        if o["checked"] and not (o["verify_ok"] or o["ever_ok_before"]):
            fail("check_completed set although no check_NP24 of this object ever succeeded",
                 dict(tags, clause="checked_never_verified"))
        if c["ct"] == 1 and o["check_failed"] and o["checked"]:
            fail("check_completed is true although the last check_NP24 failed", dict(tags, clause="checked_stale"))
        if c["ct"] == 0 and o["outcome"] == 101 and kind != 2:
            eff = {"comp": int(bool(cur_opts[2])), "t": 1 if compressed else 0,
                   "sub": opts[3] if len(opts) > 3 else 0}
            if kind == 0 and eff["sub"] not in (0, (1 << n) - 1) and cur_opts[0]:
                fail("verification accepted a split that does not cover every channel of the original",
                     dict(tags, clause="subset_verify"))
            bad = outputs_valid(cfg, eff, s)
            if kind == 1 and eff["comp"] and not compressed:
                bad = [b for b in bad if b != "original not compressed in place"] + \
                    ([] if (s[10] == 0 and s[11] == 2 and s[13] == 2) else ["original not compressed in place"])
            if bad:
                fail("completed call left invalid output: %s" % bad[:3],
                     dict(tags, clause="complete_valid", reopened_reader=o.get("reopened", 0)))
        if c["ct"] == 0 and kind != 2:
            before = dict(zip(s.keys(), prev_state))
            dirs_before = [before[1000 + k] == 2 for k in range(n)]
            pp = int(any(dirs_before) and not all(dirs_before))
            orig_there = before[10] == 2 or (before[11] == 2 and before[13] == 2)
            if o["outcome"] in (100, 201) and o["state"] != prev_state:
                fail("process() reported %s but changed the directory" %
                     ("nothing done" if o["outcome"] == 100 else "a missing input"),
                     dict(tags, clause="status0_changed_disk", partial_prepare=pp, ow=c["ow"]))
            sub = opts[3] if len(opts) > 3 else 0
            partial = kind == 0 and sub not in (0, (1 << n) - 1) and cur_opts[0]
            if c["ow"] and c["crash"] < 0 and c["corrupt"] < 0 and orig_there and not o["closed_before"] \
                    and not partial and o["outcome"] != 101:
                fail("forced re-run on the same object did not complete (%d %s)" % (o["outcome"], o.get("exc", "")),
                     dict(tags, clause="forced_rerun"))
        prev_state = list(o["state"])
        if c["ct"] == 3:
            cur_opts = (c["post"], c["del"], c["comp"])
        if c["ct"] == 0 and o["closed_before"] and o["outcome"] == 209 and "signal" in o.get("exc", ""):
            fail("process() on an object that has closed its reader kills the interpreter",
                 dict(tags, clause="segfault"))


# ----------------------------------------------------------------------------
# exploration (worker processes)
# ----------------------------------------------------------------------------
def mkrun(t=0, post=1, dele=0, comp=1, ow=0, crash=-1, corrupt=-1, cpos=0, sub=0):
    """cpos: where the adversary damages the shank file (0 first, 1 middle, 2 last frame); the model
    does not depend on it"""
    return {"t": t, "post": post, "del": dele, "comp": comp, "ow": ow, "crash": crash, "corrupt": corrupt,
            "cpos": cpos, "sub": sub}


def auto_target(cfg, state):
    s = st_of(cfg, {"state": state})
    return 0 if s[10] != 0 or s[11] == 0 else 1


def shank_target_ok(cfg, state, k):
    s = st_of(cfg, {"state": state})
    a = (10 + 2 * k) * 10
    return s[a + 4] == 2 and (s[a] == 2 or (s[a] == 0 and s[a + 1] == 2 and s[a + 3] == 2))


def worker(task):
    """Replays task['prefix'], then for every template: the fault-free run, the
    requested crash points, and after each of them the follow-up runs.  Returns
    [(runs, observations)] — every root-to-leaf history."""
    base = Path(task["base"])
    cfg = task["cfg"]
    kind, fixture, n, w, compressed = CONFIGS[cfg]
    exp = {int(k): v for k, v in json.loads((base / cfg / "exp.json").read_text()).items() if k != "recon_error"}
    rng = random.Random(task["seed"])
    set_layout(cfg, task.get("extra", ""))
    work = Path(common.tmpdir(prefix="C04_w_"))
    if "object" in task:
        try:
            res = []
            for j, (opts, calls) in enumerate(task["object"]):
                for c in calls:
                    c["extra"] = LAYOUT["extra"]
                d = work / ("o%d" % j)
                shutil.copytree(base / cfg / "init", d)
                try:
                    obs = run_object(d, cfg, exp, opts, calls)
                except Exception as e:      # the harness could not even build the object
                    obs = [{"outcome": 209, "exc": repr(e), "checked": 0, "already": 2, "processed": 0, "trace": [],
                            "aux": [], "verify_ok": 0, "check_failed": 0, "closed_before": 0, "ever_ok_before": 0,
                            "fresh_ok_before": 0, "state": [], "extra": []}]
                res.append((list(opts), calls[:len(obs)], obs))
                shutil.rmtree(d, ignore_errors=True)
            return cfg, ("object", res)
        finally:
            shutil.rmtree(work, ignore_errors=True)
    out = []
    ctr = [0]

    def fresh(src):
        ctr[0] += 1
        d = work / ("d%d" % ctr[0])
        shutil.copytree(src, d)
        return d

    def do(src, r):
        r["extra"] = LAYOUT["extra"]
        d = fresh(src)
        if r["t"] >= 100:
            return d, run_op(d, cfg, exp, r)
        dg = digest(d) if (r["crash"] < 0) else None
        o = run_real(d, cfg, exp, r)
        if dg is not None and o["outcome"] in (100, 99, 201):
            o["digest_changed"] = digest(d) != dg
        return d, o

    try:
        cur = base / cfg / "init"
        pruns, pobs = [], []
        for r in task["prefix"]:
            r = dict(r)
            if r["t"] == -1:
                r["t"] = auto_target(cfg, pobs[-1]["state"]) if pobs else int(compressed)
            d, o = do(cur, r)
            cur = d
            pruns.append(r)
            pobs.append(o)
        pstate = pobs[-1]["state"] if pobs else None
        for tpl in task["templates"]:
            tpl = dict(tpl)
            if tpl["t"] == -1:
                tpl["t"] = auto_target(cfg, pstate) if pstate else int(compressed)
            d0, o0 = do(cur, tpl)
            hist0 = (pruns + [tpl], pobs + [o0])
            out.append(hist0)
            leaves = [(d0, hist0)]
            L = len(o0["trace"]) if tpl["crash"] < 0 else 0
            mode = task["crash"]
            if mode == "all":
                pts = list(range(L))
            elif mode == "none" or mode == 0:
                pts = []
            else:
                pts = sorted(rng.sample(range(L), min(L, mode)))
            for c in pts:
                rc = dict(tpl, crash=c)
                d1, o1 = do(cur, rc)
                h1 = (pruns + [rc], pobs + [o1])
                out.append(h1)
                leaves.append((d1, h1))
            for j, (d1, (hr, ho)) in enumerate(leaves):
                if not (task["follow"] >= 1 or (j == 0 and task["follow"] > 0) or rng.random() < task["follow"]):
                    shutil.rmtree(d1, ignore_errors=True)
                    continue
                st = ho[-1]["state"]
                tg = auto_target(cfg, st)
                fol = [dict(tpl, t=tg, ow=0, crash=-1, corrupt=-1),
                       dict(tpl, t=tg, ow=1, crash=-1, corrupt=-1)]
                if rng.random() < 0.5:
                    fol.append(mkrun(t=tg, post=rng.randrange(2), dele=rng.randrange(2), comp=rng.randrange(2),
                                     ow=rng.randrange(2), crash=rng.randrange(0, max(1, L))))
                if kind == 0 and rng.random() < 0.3:
                    k = rng.randrange(n)
                    if shank_target_ok(cfg, st, k):
                        fol.append(mkrun(t=2 + k))
                for f in fol:
                    d2, o2 = do(d1, f)
                    out.append((hr + [f], ho + [o2]))
                    if f["ow"] and f["crash"] < 0 and rng.random() < 0.5:
                        g = dict(f, ow=0, t=auto_target(cfg, o2["state"]))
                        d3, o3 = do(d2, g)
                        out.append((hr + [f, g], ho + [o2, o3]))
                        shutil.rmtree(d3, ignore_errors=True)
                    shutil.rmtree(d2, ignore_errors=True)
                shutil.rmtree(d1, ignore_errors=True)
    finally:
        shutil.rmtree(work, ignore_errors=True)
    return cfg, out


def reference_job(arg):
    base, cfg = Path(arg[0]), arg[1]
    try:
        exp = build_reference(base, cfg)
        (base / cfg / "exp.json").write_text(json.dumps(exp))
        m = measure_sync_copy(base, cfg, exp) if cfg == "np24s4w2" else None
        ns = probe_nsamples(base, cfg, exp) if cfg == "np24s1w3" else None
        na = probe_noap_name(base, cfg) if cfg == "np21w2" else None
        return ("ok", m, exp.get("recon_error"), ns, na)
    except AssertionError as e:
        return ("assert", str(e))
    except BaseException as e:       # noqa
        return ("raised", repr(e))


def isolated_map(fn, args, timeout, nproc=4):
    """fn(arg) for every arg, each in its own child process (one single-worker pool per call, a few at a
    time): [('ok', value) | ('hang', None) | ('died', repr)]"""
    from concurrent.futures import ThreadPoolExecutor, TimeoutError as FTimeout
    mpc = multiprocessing.get_context("fork")

    def one(a):
        ex = ProcessPoolExecutor(max_workers=1, mp_context=mpc)
        f = ex.submit(fn, a)
        try:
            r = ("ok", f.result(timeout=timeout))
            ex.shutdown()
            return r
        except FTimeout:
            res = ("hang", None)
        except Exception as e:
            res = ("died", repr(e))
        for pr in list(getattr(ex, "_processes", {}).values()):
            try:
                pr.kill()
            except Exception:
                pass
        ex.shutdown(wait=False, cancel_futures=True)
        return res
    with ThreadPoolExecutor(max_workers=nproc) as tp:
        return list(tp.map(one, args))


def task_desc(task):
    if "object" in task:
        return {"cfg": task["cfg"], "object": 1, "opts": list(task["object"][0][0]), "calls": task["object"][0][1],
                "note": "first of %d call sequences of the task" % len(task["object"])}
    return {"cfg": task["cfg"], "runs": list(task.get("prefix", [])) + list(task.get("templates", []))[:1]}


def safe_worker(task):
    """worker() never lets an exception escape: an unexpected failure of the machinery on some input is
    reported as data."""
    try:
        return ("ok", worker(task))
    except BaseException as e:       # noqa: the implementation under test may do anything
        import traceback
        return ("error", "%r\n%s" % (e, traceback.format_exc()[-1500:]))


def run_tasks(ctx, tasks, nproc=5, timeout=240, retry_timeout=100, max_culprits=2):
    """Runs the tasks in worker processes.  A worker that raises, is killed by a signal (the
    implementation segfaults) or hangs does not stop the check: the task is re-run alone to single out
    the culprit, which is then reported as a disagreement (the implementation did something the model
    has no outcome for)."""
    from concurrent.futures import TimeoutError as FTimeout
    from concurrent.futures.process import BrokenProcessPool
    mpc = multiprocessing.get_context("fork")
    results, retry = [], []

    def kill(ex):
        for pr in list(getattr(ex, "_processes", {}).values()):
            try:
                pr.kill()
            except Exception:
                pass
        ex.shutdown(wait=False, cancel_futures=True)

    ex = ProcessPoolExecutor(max_workers=nproc, mp_context=mpc)
    futs = [(t, ex.submit(safe_worker, t)) for t in tasks]
    broken = False
    for t, f in futs:
        if broken:
            if f.done() and not f.cancelled() and f.exception() is None:
                results.append((t, f.result()))
            else:
                retry.append(t)
            continue
        try:
            results.append((t, f.result(timeout=timeout)))
        except (BrokenProcessPool, FTimeout, Exception):
            broken = True
            retry.append(t)
    kill(ex) if broken else ex.shutdown()
    culprits = 0
    for k, t in enumerate(retry):   # one process per task: whoever dies now is the culprit
        if culprits >= max_culprits:
            ctx.disagree("%d further tasks were not run after %d tasks killed or hung their worker process"
                         % (len(retry) - k, culprits), task_desc(t), {"clause": "not_run"})
            break
        ex1 = ProcessPoolExecutor(max_workers=1, mp_context=mpc)
        f = ex1.submit(safe_worker, t)
        try:
            results.append((t, f.result(timeout=retry_timeout)))
            ex1.shutdown()
        except FTimeout:
            kill(ex1)
            culprits += 1
            ctx.fail("the converter does not terminate (no result after %d s) in a history starting with these "
                     "runs" % retry_timeout, task_desc(t), {"clause": "hang"})
        except Exception as e:
            kill(ex1)
            culprits += 1
            ctx.fail("the converter kills the interpreter (%r) in a history starting with these runs" % (e,),
                     task_desc(t), {"clause": "worker_died"})
    out = []
    for t, (tag, val) in results:
        if tag == "ok":
            out.append((t, val))
        else:
            ctx.disagree("the harness could not run this task on the implementation: %s" % val[:600], task_desc(t),
                         {"clause": "worker_error"})
    return out


def all_templates(corrupt_n=0):
    t = []
    for ow in (0, 1):
        for post in (0, 1):
            for dele in (0, 1):
                for comp in (0, 1):
                    t.append(mkrun(t=-1, post=post, dele=dele, comp=comp, ow=ow))
    return t


def make_tasks(ctx, base):
    """Task list; every random choice from ctx.rng."""
    rng = ctx.rng
    th = ctx.thorough()
    tasks = []

    def add(cfg, prefix, templates, crash, follow=1, extra=""):
        for tpl in templates:       # one template per task: better load balance
            tasks.append({"base": str(base), "cfg": cfg, "prefix": prefix, "templates": [tpl],
                          "crash": crash, "follow": follow, "seed": rng.randrange(1 << 30), "extra": extra})

    T = all_templates()
    TO = [t for t in T if t["ow"]]
    TN = [t for t in T if not t["ow"]]
    full = mkrun(t=-1, post=1, dele=0, comp=1)
    nocomp = mkrun(t=-1, post=1, dele=0, comp=0)
    fo = 1 if th else 0.25
    # quick keeps every class of run (kind, original form, option, interruption site, follow-up) but
    # samples inside the classes; thorough enumerates.  Budget: quick must stay under 3 min on a machine
    # that is oversubscribed 4-5x (about 60 s of CPU in total).
    # single-shank NP2.4: every crash point of every option combination, from the fresh directory
    key = [t for t in T if (t["post"], t["del"], t["comp"], t["ow"]) in
           ((1, 1, 1, 0), (1, 1, 1, 1), (1, 0, 0, 0), (0, 1, 0, 1))]
    if th:
        add("np24s1w3", [], T, "all", fo)
    else:
        add("np24s1w3", [], key[1:2], "all", fo)
        add("np24s1w3", [], key[:1] + key[2:], 8, fo)
        add("np24s1w3", [], rng.sample([t for t in T if t not in key], 6), 2, fo)
    add("np24s1w1", [], T if th else rng.sample(T, 2), "all", fo)
    # ... and from directories left by earlier runs (stale .cbin, plain .bin, half-compressed, half-prepared)
    for prefix in ([full], [nocomp], [dict(full, crash=13)], [dict(full, crash=1)]):
        add("np24s1w3", prefix, TO if th else rng.sample(TO, 1), "all" if th else 4, fo)
        if th or prefix[-1]["crash"] >= 0:
            add("np24s1w3", prefix, TN if th else rng.sample(TN, 1), 2, fo)
    # four shanks: sampled crash points (all in thorough); crashes inside _prepare_files always
    add("np24s4w2", [], T if th else rng.sample(T, 4), "all" if th else 2, fo)
    add("np24s4w2", [], [mkrun(t=-1, post=1, dele=1, comp=1, ow=0)], "all" if th else 7, fo)
    for c in ((2, 4, 7) if th else (4,)):
        add("np24s4w2", [dict(full, crash=c)], [mkrun(t=-1, ow=0), mkrun(t=-1, ow=1, dele=1)], 2 if th else 1, fo)
    add("np24s4w2", [full], rng.sample(TO, 8 if th else 1), "all" if th else 3, fo)
    add("np24s4w1c", [], T if th else rng.sample(T, 2), "all" if th else 3, fo)
    # damaged shank file before verification
    for cfg, k in (("np24s1w3", 0), ("np24s4w2", 0), ("np24s4w2", 3)):
        add(cfg, [], [mkrun(t=-1, post=1, dele=1, comp=c, ow=o, corrupt=k, cpos=(c + 2 * o + k) % 3)
                      for c in (0, 1) for o in (0, 1)][:4 if th else (3 if cfg == "np24s1w3" else 1)], "none", 1)
    # damage that keeps every sum: values exchanged between channels / frames, +k/-k, two channels exchanged
    for cp in (3, 4, 5, 6):
        add("np24s1w3", [], [mkrun(t=-1, post=1, dele=1, comp=cp % 2, ow=0, corrupt=0, cpos=cp)], "none", 1)
        if th or cp in (3, 6):
            add("np24s4w2", [], [mkrun(t=-1, post=1, dele=1, comp=0, ow=0, corrupt=cp % 4, cpos=cp)], "none", 1)
    # NP2.1: every crash point, fresh and after earlier runs, plain and pre-compressed original
    # (a follow-up after every interrupted run: interrupted-then-rerun histories, plain and forced)
    add("np21w2", [], T if th else [t for t in T if (t["post"], t["del"], t["comp"], t["ow"]) in
                                    ((1, 1, 1, 0), (0, 0, 1, 1), (0, 0, 0, 0))], "all", 1 if th else 0.5)
    for prefix in ([mkrun(t=-1, comp=1)], [mkrun(t=-1, comp=0)], [mkrun(t=-1, comp=1, crash=6)],
                   [mkrun(t=-1, comp=1, crash=8)], [mkrun(t=-1, comp=1, crash=9)],
                   [mkrun(t=-1, comp=1, crash=2), mkrun(t=-1, comp=1, ow=1, crash=7)],
                   [mkrun(t=-1, comp=1, crash=11)], [mkrun(t=-1, comp=0, ow=1, crash=1)]):
        add("np21w2", prefix, [mkrun(t=-1, comp=1, ow=1), mkrun(t=-1, comp=0, ow=1), mkrun(t=-1, comp=1, ow=0)]
            if th else [mkrun(t=-1, comp=rng.randrange(2), ow=1 if prefix[-1]["crash"] >= 0 else rng.randrange(2))],
            "all" if th else 2, fo)
    # original given as .cbin (compress_NP21 must leave it alone), fresh and after interrupted runs
    add("np21w1c", [], [t for t in T if t["post"] == 1 and t["del"] == 0 and (th or t["comp"])], "all", 1 if th else 0.5)
    add("np21w2c", [], [t for t in T if t["post"] == 0 and t["del"] == 1 and (th or t["comp"])], "all", 1 if th else 0.5)
    for prefix in ([mkrun(t=-1, comp=1, crash=5)], [mkrun(t=-1, comp=1, crash=7)], [mkrun(t=-1, comp=0)]):
        add("np21w2c", prefix, [mkrun(t=-1, comp=1, ow=1), mkrun(t=-1, comp=1, ow=0)][:2 if th else 1],
            "all" if th else 2, fo)
    add("np1w1", [], T if th else rng.sample(T, 2), "none", 1)
    # _process_NP21(assert_shanks=False): same steps, all channels of the file taken in on-disk order
    add("np21w2", [], [dict(mkrun(t=-1, post=0, dele=0, comp=1), direct21=1),
                       dict(mkrun(t=-1, post=0, dele=0, comp=0, ow=1), direct21=1)], "all" if th else 3, 1 if th else 0.5)
    # init_params(nshank=[subset]) / extra=: only some shanks are written; with post_check the comparison
    # with the full-width original must refuse, whatever delete_original / compress say
    for m in ((0b0011, 0b0100, 0b1110, 0b1111) if th else (0b0011, 0b1000, 0b1111)):
        for (po, de, co) in (((1, 1, 0), (1, 1, 1), (0, 1, 1), (1, 0, 0)) if th else
                             ((1, 1, 0), (1, 1, 1) if m != 0b1000 else (0, 1, 1))):
            add("np24s4w2", [], [mkrun(t=-1, post=po, dele=de, comp=co, sub=m)], "all" if th else 1, fo)
    add("np24s4w2", [mkrun(t=-1, post=0, dele=0, comp=0, sub=0b0101)],
        [mkrun(t=-1, post=1, dele=1, comp=0, ow=1, sub=0b1010), mkrun(t=-1, post=1, dele=1, comp=1, ow=1, sub=0),
         mkrun(t=-1, post=1, dele=1, comp=0, ow=0, sub=0b1010)], 2 if th else 0, 1)
    add("np24s4w2", [], [mkrun(t=-1, post=1, dele=1, comp=0, sub=0b0110), mkrun(t=-1, post=1, dele=1, comp=1)],
        2 if th else 1, 1, extra="_x")
    add("np24s1w3", [], [mkrun(t=-1, post=1, dele=1, comp=1, sub=0b1), mkrun(t=-1, post=1, dele=0, comp=0)],
        "all" if th else 2, fo, extra="_run2")
    # a complete run, then a plain re-run whose compress option differs: still "nothing done"
    for cfg in ("np21w2", "np24s1w1"):
        for c1 in (0, 1):
            add(cfg, [mkrun(t=-1, post=0, dele=0, comp=c1)], [mkrun(t=-1, post=0, dele=0, comp=1 - c1, ow=0)], "none", 0)
    # original and lf output in different formats (.cbin next to lf.bin; .cbin next to a half-compressed lf)
    add("np21w1c", [mkrun(t=-1, post=0, dele=0, comp=0)], [mkrun(t=-1, post=0, dele=0, comp=0, ow=0)], "none", 0)
    add("np21w2", [mkrun(t=-1, post=0, dele=0, comp=1, crash=10)], [mkrun(t=-1, post=0, dele=0, comp=1, ow=0)], "none", 0)
    # file names with a dataset UUID (and "ap" elsewhere in the name): the lf output must not alias the original
    add("np21w2u", [], [mkrun(t=-1, post=0, dele=0, comp=1), mkrun(t=-1, post=0, dele=0, comp=0, ow=1)]
        + ([mkrun(t=-1, post=1, dele=1, comp=1, ow=1), mkrun(t=-1, post=0, dele=0, comp=0)] if th else []),
        "all" if th else 3, 1)
    add("np21w1cu", [], [mkrun(t=-1, post=0, dele=0, comp=1, ow=1), mkrun(t=-1, post=0, dele=0, comp=1)]
        + ([mkrun(t=-1, post=0, dele=0, comp=0, ow=1)] if th else []), "all" if th else 3, 1)
    add("np24s1w1u", [], [mkrun(t=-1, post=1, dele=1, comp=1), mkrun(t=-1, post=1, dele=0, comp=0, ow=1)],
        "all" if th else 3, 1)
    # probes that are not NP2 (3A, 3B2, NPultra), with and without a hardware lf file: -1, nothing touched
    for cfg in ("np3Aw1", "np1w1h", "npUw1", "npUw1h"):
        add(cfg, [], [mkrun(t=-1, post=1, dele=1, comp=1, ow=0), mkrun(t=-1, post=0, dele=0, comp=1, ow=1)]
            + (T if th else []), "none", 1)
    # split with deletion -> (the user removes the leftover .meta) -> NP2Reconstructor -> convert the
    # recovered file again, plain / forced / interrupted; a shank file of the split is still refused
    DROP, REC = mkrun(t=100), (lambda c: mkrun(t=101, comp=c))
    for cfg, rcomp, drop in (("np24s4w2", 0, 1), ("np24s1w3", 0, 1), ("np24s1w3", 1, 1), ("np24s1w3", 0, 0)) + \
            ((("np24s4w2", 1, 0), ("np24s4w2", 1, 1)) if th else ()):
        for c1 in ((0, 1) if th else (rng.randrange(2),)):
            prefix = [mkrun(t=-1, post=1, dele=1, comp=c1)] + ([dict(DROP)] if drop else []) + [REC(rcomp)]
            add(cfg, prefix, [mkrun(t=-1, post=1, dele=0, comp=0, ow=1), mkrun(t=-1, post=1, dele=1, comp=1, ow=1),
                              mkrun(t=-1, post=0, dele=0, comp=1, ow=0)][:3 if th else 2],
                "all" if th else (2 if cfg == "np24s1w3" else 1), 1)
            add(cfg, prefix, [mkrun(t=2)], "none", 0)
    tasks += object_tasks(ctx, base)
    return tasks


def object_tasks(ctx, base):
    """Sequences of method calls on ONE converter object."""
    rng = ctx.rng
    th = ctx.thorough()
    P, K, D, O = (lambda **k: mkcall(ct=0, **k)), (lambda **k: mkcall(ct=1, **k)), \
        (lambda **k: mkcall(ct=2, **k)), (lambda post, dele, comp: mkcall(ct=3, post=post, dele=dele, comp=comp))
    allo = [(a, b, c) for a in (0, 1) for b in (0, 1) for c in (0, 1)]
    seqs = {"np24s1w3": [], "np24s4w2": [], "np21w2": [], "np21w2c": [], "np24s4w1c": []}
    s1 = seqs["np24s1w3"]
    # re-use after the object has deleted the original (F-C04-d) and harmless variants
    for o in ((1, 1, 0), (1, 1, 1)):
        s1 += [(o, [P(), P(ow=1)]), (o, [P(), P()]), (o, [P(), D()])]
    # stale check_completed (F-C04-e): failed direct check, interrupted forced re-run, then delete_NP24
    for cp in (0, 1, 2):
        s1.append(((1, 0, 0), [P(), K(corrupt=0, cpos=cp), O(1, 1, 0), D()]))
    # split without verification, sum-preserving damage, then the separate check_NP24() / delete_NP24()
    for cp in (3, 4, 5, 6):
        s1.append(((0, 1, 0), [P(), K(corrupt=0, cpos=cp), D()]))
    s1 += [((1, 0, 0), [P(), K(corrupt=0), K(), K()]),
           ((1, 1, 1), [P(crash=13), P(ow=1, crash=5), D()]),
           ((1, 1, 1), [P(crash=17), P(ow=1, crash=1), D()]),
           ((1, 1, 0), [P(corrupt=0), D()]),
           # legitimate uses of the separate methods
           ((0, 0, 0), [P(), K(), O(0, 1, 0), D()]), ((1, 0, 0), [P(), K(), K(crash=0), K()]),
           ((0, 1, 0), [P(), D(), K(), D()]), ((0, 0, 0), [P(), K(crash=0), O(1, 1, 0), D()]),
           ((1, 0, 0), [P(), O(1, 1, 1), P(ow=1)]), ((0, 0, 1), [P(), O(1, 1, 0), P(ow=1), P()])]
    # an interrupted call followed by a forced / plain retry on the same object
    for o in allo:
        pts = list(range(26)) if th else sorted(rng.sample(range(26), 2))
        for c in pts:
            s1.append((o, [P(crash=c), P(ow=1)]))
        s1.append((o, [P(), P()]))
        s1.append((o, [P(ow=1, crash=rng.randrange(26)), P(crash=rng.randrange(26)), P(ow=1)]))
    for _ in range(120 if th else 10):
        o = rng.choice(allo)
        calls, dele = [], o[1]
        for _j in range(rng.randrange(2, 5)):
            x = rng.random()
            if x < 0.65:
                calls.append(P(ow=rng.randrange(2), crash=rng.choice([-1, -1, rng.randrange(26)])))
            elif x < 0.85:
                no = rng.choice(allo)
                calls.append(O(*no))
                dele = no[1]
            elif dele:
                calls.append(D())
        if calls:
            s1.append((o, calls))
    s4 = seqs["np24s4w2"]
    s4 += [((1, 1, 0), [P(), P(ow=1)]), ((1, 0, 0), [P(), K(corrupt=2, cpos=1), O(1, 1, 0), D()]),
           ((1, 1, 1), [P(crash=30), P(ow=1, crash=14), D()]), ((1, 1, 1), [P(crash=rng.randrange(70)), P(ow=1)]),
           ((0, 0, 0), [P(), K(), O(0, 1, 0), D()])]
    # (a closed mtscomp reader keeps serving cached chunks of these tiny files: no re-use after delete here)
    seqs["np24s4w1c"] += [((1, 0, 0), [P(), P(ow=1)]), ((1, 1, 1), [P(crash=rng.randrange(50)), P(ow=1)])]
    s2 = seqs["np21w2"]
    for o in ((0, 0, 1), (1, 1, 1)):
        s2 += [(o, [P(), P(ow=1)]), (o, [P(), P()]), (o, [P(crash=8), P(ow=1)]), (o, [P(crash=8), P()])]
        for c in (range(14) if th else sorted(rng.sample(range(14), 2))):
            s2.append((o, [P(crash=c), P(ow=1), P()]))
    s2 += [((0, 0, 0), [P(), O(0, 0, 1), P(ow=1)]), ((0, 0, 0), [P(), P(ow=1), O(1, 0, 1), P(ow=1, crash=6), P(ow=1)])]
    seqs["np21w2c"] += [((0, 0, 1), [P(), P(ow=1)]), ((0, 0, 1), [P(crash=5), P(ow=1), P()])]
    # objects restricted to some shanks
    s4 += [((1, 1, 0, 0b0011), [P(), D()]), ((1, 1, 1, 0b1100), [P(), K(), D()]),
           ((0, 0, 0, 0b0110), [P(), K(), O(1, 1, 0), D()]), ((0, 1, 0, 0b1111), [P(), K(), D()]),
           ((1, 1, 0, 0b0001), [P(crash=rng.randrange(20)), P(ow=1), D()])]
    tasks = []
    for cfg, lst in seqs.items():
        for i in range(0, len(lst), 8):
            tasks.append({"base": str(base), "cfg": cfg, "object": lst[i:i + 8], "seed": 0})
    tasks.append({"base": str(base), "cfg": "np24s4w2", "seed": 0, "extra": "_x",
                  "object": [((1, 1, 0, 0b0011), [P(), D()]), ((1, 1, 0), [P(), P(ow=1)])]})
    return tasks


def run(ctx):
    common.proof_obligations(ctx, whitelist=[])
    base = Path(common.tmpdir(prefix="C04_base_"))
    hists = []
    objs = []
    try:
        ok_cfgs = []
        # the fault-free reference conversions run the implementation too: in child processes
        refs = isolated_map(reference_job, [(str(base), cfg) for cfg in CONFIGS], timeout=180)
        for cfg, (tag, val) in zip(CONFIGS, refs):
            case = {"cfg": cfg, "runs": [mkrun(post=1, dele=0, comp=1)]}
            if tag == "ok" and val[0] == "ok":
                ok_cfgs.append(cfg)
                if len(val) > 3 and val[3]:
                    ctx.measurements["nsamples_histories_checked"] = val[3]["histories"]
                    for b in val[3]["lost"]:
                        ctx.fail("init_params(nsamples=%d) on a %d-sample recording: after this history the original is "
                                 "gone although the shank files cannot hold every sample (returned %s)"
                                 % (NWINDOW, NS_OF_W[CONFIGS[cfg][3]], b["returned"]),
                                 {"cfg": cfg, "nsamples": NWINDOW, "history": b["history"],
                                  "runs": [mkrun(post=1, dele=1, comp=0)]},
                                 {"clause": "nsamples_partial_delete", "kind": 0})
                if len(val) > 4 and val[4] and val[4].get("status") != 1:
                    ctx.fail("an NP2.1 recording named rec.imec0.bin (no 'ap' in the name): a plain first run returns %s "
                             "and writes no lf file: the lf path is the path of the file given (files: %s)"
                             % (val[4].get("status"), val[4].get("files")),
                             {"cfg": cfg, "name": "rec.imec0.bin", "runs": [mkrun(post=0, dele=0, comp=0)]},
                             {"clause": "name_alias", "kind": 1})
                if val[2]:
                    ctx.fail("split -> NP2Reconstructor -> conversion of the recovered original: %s" % val[2],
                             {"cfg": cfg, "runs": [mkrun(post=1, dele=1, comp=0), mkrun(t=100), mkrun(t=101, comp=0),
                                                   mkrun(post=1, dele=0, comp=0, ow=1)]}, {"clause": "reference_recon"})
                if val[1] is not None:
                    ctx.measurements["sync_copy_of_other_shanks_is_verified"] = val[1]
            elif tag == "ok" and val[0] == "assert":
                ctx.fail("fault-free conversion is not a valid conversion: %s" % val[1], case, {"clause": "reference"})
            elif tag == "ok":
                ctx.fail("fault-free conversion raised %s" % val[1], case, {"clause": "reference"})
            elif tag == "hang":
                ctx.fail("fault-free conversion does not terminate (no result after 180 s)", case,
                         {"clause": "reference_hang"})
            else:
                ctx.fail("fault-free conversion killed the interpreter (%s)" % val, case,
                         {"clause": "reference_died"})
        tasks = [t for t in make_tasks(ctx, base) if t["cfg"] in ok_cfgs]
        for task, res in run_tasks(ctx, tasks):
            cfg, out = res
            if isinstance(out, tuple) and out[0] == "object":
                for opts, calls, obs in out[1]:
                    objs.append((cfg, opts, calls, obs))
                continue
            for runs, obs in out:
                hists.append((cfg, runs, obs))
        init_states = {}
        for cfg in ok_cfgs:
            exp = {int(k): v for k, v in json.loads((base / cfg / "exp.json").read_text()).items() if k != "recon_error"}
            set_layout(cfg)
            init_states[cfg] = observe((base / cfg / "init").resolve(), CONFIGS[cfg][2], exp)["state"]
    finally:
        shutil.rmtree(base, ignore_errors=True)
    # de-duplicate histories (prefixes are shared between leaves)
    uniq = {}
    for cfg, runs, obs in hists:
        uniq.setdefault(json.dumps([cfg, runs], sort_keys=True), (cfg, runs, obs))
    hists = list(uniq.values())
    seen = set()
    dist = {"runs": 0, "crashed": 0, "status1": 0, "status0": 0, "statusm1": 0, "missing_input": 0,
            "assertion": 0, "other_exception": 0, "corrupt": 0, "overwrite": 0, "split_input": 0,
            "len1": 0, "len2": 0, "len3plus": 0, "orig_deleted": 0, "orig_compressed_in_place": 0}
    nontrivial = set()
    states = set()
    for cfg, runs, obs in hists:
        oracle(ctx, cfg, runs, obs, init_states[cfg], seen)
        dist["len1" if len(runs) == 1 else "len2" if len(runs) == 2 else "len3plus"] += 1
        r, o = runs[-1], obs[-1]
        dist["runs"] += 1
        oc = o["outcome"]
        dist["crashed"] += oc == 203
        dist["status1"] += oc == 101
        dist["status0"] += oc == 100
        dist["statusm1"] += oc == 99
        dist["missing_input"] += oc == 201 and not o["trace"]
        dist["assertion"] += oc == 202
        dist["other_exception"] += oc == 209
        dist["corrupt"] += r["corrupt"] >= 0
        dist["overwrite"] += r["ow"]
        dist["split_input"] += r["t"] >= 2
        dist["nshank_subset"] = dist.get("nshank_subset", 0) + (r.get("sub", 0) != 0)
        dist["extra_suffix"] = dist.get("extra_suffix", 0) + bool(r.get("extra"))
        dist["orig_deleted"] += any(e[0] == "unlink_orig" and e[4] for e in o["aux"])
        dist["orig_compressed_in_place"] += any(e[0] == "unlink_orig" and not e[4] for e in o["aux"])
        states.add((cfg, tuple(o["state"])))
        if o["trace"]:
            nontrivial.add(json.dumps([cfg, runs], sort_keys=True))
    dist["distinct_abstract_states"] = len(states)
    uo = {}
    for cfg, opts, calls, obs in objs:
        uo.setdefault(json.dumps([cfg, opts, calls], sort_keys=True), (cfg, opts, calls, obs))
    objs = list(uo.values())
    dist.update({"object_sequences": len(objs), "object_calls": 0, "object_direct_check": 0,
                 "object_direct_delete": 0, "object_set_options": 0, "object_call_on_closed_reader": 0,
                 "object_interpreter_killed": 0})
    for cfg, opts, calls, obs in objs:
        oracle_object(ctx, cfg, opts, calls, obs, init_states[cfg], seen)
        dist["object_calls"] += len(calls)
        dist["object_direct_check"] += sum(c["ct"] == 1 for c in calls)
        dist["object_direct_delete"] += sum(c["ct"] == 2 for c in calls)
        dist["object_set_options"] += sum(c["ct"] == 3 for c in calls)
        dist["object_call_on_closed_reader"] += sum(o["closed_before"] for o in obs)
        dist["object_interpreter_killed"] += sum("signal" in o.get("exc", "") for o in obs)
        if any(o["trace"] for o in obs[1:]):
            nontrivial.add(json.dumps([cfg, opts, calls], sort_keys=True))
    inputs = [enc_hist(cfg, runs) for cfg, runs, obs in hists] + \
        [enc_objseq(cfg, opts, calls) for cfg, opts, calls, obs in objs]
    outputs = [[x for o in obs for x in enc_obs(o)] for cfg, runs, obs in hists] + \
        [[x for o in obs for x in enc_obs(o)] for cfg, opts, calls, obs in objs]
    names = name_cases(ctx)
    nn0 = len(inputs)
    inputs += [[30] + [ord(ch) for ch in nm] for nm in names]
    outputs += [[ord(ch) for ch in nm.replace("ap", "lf")] + [int("ap" in nm)] for nm in names]
    dist["file_names"] = len(names)
    nh = len(hists)
    common.correspondence(ctx, PROP, HEADER, inputs, outputs,
                          lambda i: ({"cfg": hists[i][0], "runs": hists[i][1]} if i < nh else
                                     {"file_name": names[i - nn0]} if i >= nn0 else
                                     {"cfg": objs[i - nh][0], "object": 1, "opts": objs[i - nh][1],
                                      "calls": objs[i - nh][2]}), n_kernel=40)
    samples = [{"cfg": c, "runs": r, "outcomes": [o["outcome"] for o in ob], "final_state": ob[-1]["state"]}
               for c, r, ob in hists[:: max(1, len(hists) // 6)]]
    return common.finish(
        ctx, TRUSTED,
        rule="histories of 1-4 NP2Converter(...).process() calls (fresh object per call) on 1200-2400-sample "
             "recordings: NP2.4 with 4 shanks / 1 shank, NP2.1, NP1, original as .bin or already .cbin; all 16 "
             "(post_check, delete_original, compress, overwrite) combinations; an exception injected before site "
             "call c (every c for the 1-shank and NP2.1 recordings, a sample for 4 shanks in quick) or inside "
             "mtscomp.compress, or a shank file damaged before check_NP24; followed by a plain re-run, a forced "
             "re-run, a random run, or a run on a split shank file; plus sequences of 2-5 method calls on ONE "
             "converter object (process, check_NP24, delete_NP24, assignment of the option attributes; "
             "exceptions caught in between; a process() on an object that has closed its reader runs in a forked "
             "child); evaluations = distinct histories + distinct call sequences, each compared call by call with "
             "the model; non-trivial = the last run (a later call of the sequence) executed at least one site call",
        samples=samples, evaluations=len(hists) + len(objs), distinct_nontrivial=len(nontrivial),
        extra={"input_distribution": dist, "exhaustive": False},
        assumptions=["mtscomp.compress is deterministic for a given input file",
                     "an interruption is an exception raised between two site calls or inside mtscomp.compress"])


def replay(ctx, data):
    inp = data.get("input") or (data.get("correspondence_disagreements") or [{}])[0].get("input")
    if not inp:
        print(json.dumps(data, indent=1)[:3000])
        return 1
    if inp.get("object"):
        return replay_object(ctx, inp)
    if inp.get("nsamples"):
        cfg = inp["cfg"]
        set_layout(cfg)
        base = Path(common.tmpdir(prefix="C04_replay_"))
        try:
            exp = build_reference(base, cfg)
            res = probe_nsamples(base, cfg, exp)
        finally:
            shutil.rmtree(base, ignore_errors=True)
        print("init_params(nsamples=%d): histories after which the original is gone:" % inp["nsamples"])
        for b in res["lost"]:
            print("  ", b)
        print("property clause 'after any history with nsamples < ns the original still exists' fails:", bool(res["lost"]))
        return 1 if res["lost"] else 0
    cfg, runs = inp["cfg"], inp["runs"]
    set_layout(cfg, runs[0].get("extra", "") if runs else "")
    base = Path(common.tmpdir(prefix="C04_replay_"))
    try:
        exp = build_reference(base, cfg)
        (base / cfg / "exp.json").write_text(json.dumps(exp))
        cfg_, out = worker({"base": str(base), "cfg": cfg, "prefix": runs[:-1], "templates": [runs[-1]],
                            "crash": "none", "follow": 0, "seed": 0, "extra": LAYOUT["extra"]})
        init = observe((base / cfg / "init").resolve(), CONFIGS[cfg][2], exp)["state"]
    finally:
        shutil.rmtree(base, ignore_errors=True)
    hr, ho = out[0]
    for r, o in zip(hr, ho):
        print("run", r)
        print("  implementation: outcome %s checked %s already %s processed %s aux %s %s" % (
            o["outcome"], o["checked"], o["already"], o["processed"], o["aux"], o.get("exc", "")))
        print("  trace", o["trace"])
        print("  state", o["state"], "extra", o["extra"])
    n0 = len(ctx.oracle_failures)
    oracle(ctx, cfg, hr, ho, init, set())
    bad = ctx.oracle_failures[n0:]
    print("property clauses failing on the implementation:", [b["what"] for b in bad])
    ids = common.coq_mismatches(PROP, HEADER, [common.flat_cases_term(
        0, enc_hist(cfg, hr), [x for o in ho for x in enc_obs(o)])])
    print("kernel-evaluated model agrees with implementation:", not ids)
    return 1 if (bad or ids) else 0


def replay_object(ctx, inp):
    cfg, opts, calls = inp["cfg"], inp["opts"], inp["calls"]
    set_layout(cfg, calls[0].get("extra", "") if calls else "")
    base = Path(common.tmpdir(prefix="C04_replay_"))
    try:
        exp = build_reference(base, cfg)
        d = base / "obj"
        shutil.copytree(base / cfg / "init", d)
        obs = run_object(d, cfg, exp, opts, calls)
        init = observe((base / cfg / "init").resolve(), CONFIGS[cfg][2], exp)["state"]
    finally:
        shutil.rmtree(base, ignore_errors=True)
    calls = calls[:len(obs)]
    print("one object, options (post_check, delete_original, compress) =", opts)
    for c, o in zip(calls, obs):
        print("call", {0: "process", 1: "check_NP24", 2: "delete_NP24", 3: "set options"}[c["ct"]], c)
        print("  implementation: outcome %s check_completed %s reader closed before %s aux %s %s" % (
            o["outcome"], o["checked"], o["closed_before"], o["aux"], o.get("exc", "")))
        print("  trace", o["trace"])
        print("  state", o["state"], "extra", o["extra"])
    n0 = len(ctx.oracle_failures)
    oracle_object(ctx, cfg, opts, calls, obs, init, set())
    bad = ctx.oracle_failures[n0:]
    print("property clauses failing on the implementation:", [b["what"] for b in bad])
    ids = common.coq_mismatches(PROP, HEADER, [common.flat_cases_term(
        0, enc_objseq(cfg, opts, calls), [x for o in obs for x in enc_obs(o)])])
    print("kernel-evaluated model agrees with implementation:", not ids)
    return 1 if (bad or ids) else 0
