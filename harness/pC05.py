"""C05 — destriping: referencing, channel groups, gain control, label restriction, ADC skew.

Proofs in coq/C05; correspondence of the Q-instantiated model against
ibldsp.voltage.{car, agc, kfilt, fk, destripe, destripe_lfp} and neuropixel.adc_shifts;
the property's predicates evaluated directly on the implementation; the dB / % clauses
are measured on the real destripe (not proved)."""
import inspect
import json
import math
import warnings
from fractions import Fraction

import numpy as np
import scipy.signal

import common

PROP = "C05"
HEADER = "From Coq Require Import ZArith List.\nImport ListNotations.\nFrom IBL.C05 Require Import Run."
TOL = 1e-9
TRUSTED = [
    "Coq 8.16.1 kernel + vm_compute (no native_compute); all C05 theorems: Closed under the global context",
    "hand-written model coq/C05/Model.v of voltage.car/kfilt/fk/agc/destripe and neuropixel.adc_shifts, tied to "
    "/repo/src by this run's correspondence (same polymorphic functions run at Q with Qred after every operation; "
    "that Q with Leibniz equality on reduced fractions meets the field hypotheses of the theorems is not proved here)",
    "theorem hypotheses standing for external code: field_theory of the carrier, 1+1 <> 0 and n <> 0 (characteristic 0), "
    "<=? invariant under translation (ordered field); scipy sosfiltfilt along channels (H) returns zeros on a block whose "
    "rows are all equal; fourier.fshift(butter(x_c), s_c) realigns the skewed copies of a common waveform (C07); "
    "interpolate_bad_channels keeps a block of equal rows equal (C15); fourier.convolve computes the linear convolution (C18)",
    "float comparisons use |impl - model| <= 1e-9 * max(1, |model|) on small rational inputs; the Hann windows of agc for "
    "ns_win in {1,3,5,7} are rational and passed to the model as exact fractions recovered from np.hanning",
    "the 40 dB / 90 % clauses are measured on voltage.destripe / destripe_lfp for fixed seeds, not proved",
    "harness/pC05.py generators, canonicalisers, oracles; the kwargs spy on the module-level kfilt / fk names",
    "extraction (Require Extraction, ExtrOcamlBasic only), harness/driver.ml, ocamlfind ocamlopt; a sample of the same "
    "cases is re-evaluated by the kernel (vm_compute) and must equal the extracted model's output",
]

BUTTERS = [
    {"N": 3, "Wn": 0.1, "btype": "highpass"},      # id 0 = kfilt's default dictionary
    {"N": 3, "Wn": 0.01, "btype": "highpass"},
    {"N": 2, "Wn": 0.2, "btype": "highpass"},
    {"N": 4, "Wn": 0.05, "btype": "highpass"},
]
FK_SI = [1 / 30000, 0.002, 1 / 2500]
FK_DX = [1, 20e-6, 0.5]
FK_VB = [[2, 4], [0.5, 1.5], [10, 30]]
FK_BT = ["highpass", "lowpass"]
FK_BT_ALIASES = {0: ["highpass", "hp", "HP", "HighPass"], 1: ["lowpass", "lp", "LP", "Lowpass"], 2: ["bandpass"]}


def bt_code(v):
    v = v.lower() if isinstance(v, str) else v
    return 0 if v in ("highpass", "hp") else (1 if v in ("lowpass", "lp") else 2)

FK_LAGC = [None, 0, 0.5, 0.002, 0.01]          # encoded by position - 1 (None -> -1)
FK_KF = [None, {"bounds": [0.05, 0.1], "btype": "highpass"}, {"bounds": [100, 200], "btype": "lowpass"}]
OPS = ["median", "average", "foo"]


def V():
    from ibldsp import voltage
    return voltage


class BadReturn(Exception):
    """the implementation returned something that is not a real array of the expected shape"""


def canon(y, shape, what):
    if not isinstance(y, np.ndarray):
        raise BadReturn("%s returned a %s, not an ndarray" % (what, type(y).__name__))
    if tuple(y.shape) != tuple(shape):
        raise BadReturn("%s returned shape %s for an input of shape %s" % (what, tuple(y.shape), tuple(shape)))
    if y.dtype.kind not in "fiu":
        raise BadReturn("%s returned dtype %s" % (what, y.dtype))
    return y


# --------------------------------------------------------------------------
# flat encodings (mirror coq/C05/Run.v)
# --------------------------------------------------------------------------
def enc_car(case):
    coll = case["coll"]
    is_int = case.get("dtype", "f64") in ("i64", "i16")
    out = [1, case["op"], 0 if coll is None else (2 if is_int else 1), 0 if coll is None else len(coll)]
    out += [] if coll is None else list(coll)
    out += [case["nc"], case["ns"], case["xd"]] + [v for r in case["x"] for v in r]
    return out


def enc_agc(case):
    return ([2, case["p"], case["q"], len(case["w"]), case["wd"]] + case["w"] +
            [case["en"], case["ed"], case["nc"], case["ns"], case["xd"]] + [v for r in case["x"] for v in r])


def qpairs(flat):
    return [flat[i] / flat[i + 1] for i in range(0, len(flat) - 1, 2)]


def close(a, b):
    return abs(a - b) <= TOL * max(1.0, abs(b))


def xarr(case):
    return np.array(case["x"], dtype=np.float64).reshape(case["nc"], case["ns"]) / case["xd"]


# --------------------------------------------------------------------------
# implementation runners
# --------------------------------------------------------------------------
def car_inputs(case):
    """the array and the collection in the representation the case asks for:
    dtype f64 / f32 / i64 / i16 (integer dtypes only when the values are integers), layout C / F /
    strided view, collection as ndarray / list / float ndarray"""
    x = xarr(case)
    dt = case.get("dtype", "f64")
    if dt != "f64":
        x = x.astype({"f32": np.float32, "i64": np.int64, "i16": np.int16}[dt])
    lay = case.get("layout", "C")
    if lay == "F":
        x = np.asfortranarray(x)
    elif lay == "view":
        big = np.zeros((x.shape[0] * 2, x.shape[1] * 2 + 1), dtype=x.dtype)
        big[::2, 1::2] = x
        x = big[::2, 1::2]
    coll = case["coll"]
    if coll is not None:
        rep = case.get("coll_rep", "array")
        coll = list(coll) if rep == "list" else np.array(coll, dtype=np.float64 if rep == "float" else np.int64)
    return x, coll


def impl_car(case):
    x, coll = car_inputs(case)
    if case.get("layout") != "view":
        x = x.copy()
    with warnings.catch_warnings():
        warnings.simplefilter("ignore")
        try:
            shape = x.shape
            return canon(V().car(x, collection=coll, operator=OPS[case["op"]]), shape, "car").astype(float)
        except IndexError:
            return "IndexError"


def oracle_car(case, y):
    """zero requested statistic in every group at every sample; groups = per-group call, same operator."""
    bad = []
    if isinstance(y, str) or case["op"] > 1:
        return bad
    x = xarr(case)
    coll = case["coll"]
    if coll is not None and (len(coll) == 0 or len(coll) != case["nc"]):
        return bad
    if y.shape != x.shape:
        return ["car changed the shape of the array"]
    labels = np.zeros(case["nc"], dtype=int) if coll is None else np.array(coll)
    stat = np.median if case["op"] == 0 else np.mean
    name = OPS[case["op"]]
    scale = max(1.0, float(np.max(np.abs(x))) if x.size else 1.0)
    if case.get("dtype") == "f32":
        scale *= 1e3          # float32 path: 1e-6 relative
    for c in np.unique(labels):
        sel = labels == c
        if x.shape[1] and np.max(np.abs(stat(y[sel], axis=0))) > TOL * scale:
            bad.append("car(%s): group has a non-zero %s after referencing" % (name, name))
            break
    if coll is not None:
        for c in np.unique(labels):
            sel = labels == c
            xs = car_inputs(case)[0][sel].copy()
            ref = canon(V().car(xs, collection=None, operator=name), xs.shape, "car").astype(float)
            if np.max(np.abs(ref - y[sel]), initial=0) > TOL * scale:
                bad.append("car with groups differs from the per-group call with the same operator")
                break
    return bad


def agc_window(nswin):
    w = np.hanning(nswin)
    w = w / np.sum(w)
    fr = [Fraction(float(v)).limit_denominator(64) for v in w]
    assert all(abs(float(f) - float(v)) < 1e-15 for f, v in zip(fr, w)), "window not rational"
    wd = 1
    for f in fr:
        wd = wd * f.denominator // math.gcd(wd, f.denominator)
    return [int(f * wd) for f in fr], wd


def impl_agc(case):
    x = xarr(case)
    if case.get("dtype", "f64") != "f64":
        x = x.astype({"f32": np.float32, "i64": np.int64}[case["dtype"]])
    wl = case["wl"]
    si = case["si"]
    r = V().agc(x.copy(), wl=wl, si=si, epsilon=case["en"] / case["ed"])
    if not (isinstance(r, tuple) and len(r) == 2):
        raise BadReturn("agc returned %s, not a (data, gain) pair" % type(r).__name__)
    return canon(r[0], x.shape, "agc (data)").astype(float), canon(r[1], x.shape, "agc (gain)").astype(float)


def oracle_agc(case, out, gain):
    bad = []
    x = xarr(case)
    if out.shape != x.shape or gain.shape != x.shape:
        return ["agc changed the shape"]
    for i in range(x.shape[0]):
        if np.sum(gain[i]) == 0:
            if not np.array_equal(out[i], x[i]):
                bad.append("agc: dead row not returned unchanged")
        else:
            if not np.all(np.isfinite(out[i])):
                continue        # zero gain sample (epsilon = 0): outside the stated domain
            if np.max(np.abs(out[i] * gain[i] - x[i])) > (1e-4 if case.get("dtype") == "f32" else TOL) * max(1.0, np.max(np.abs(x[i]))):
                bad.append("agc: output * gain differs from the input")
    return bad[:1]


class Spy:
    """Records the keyword settings of the recursive (per-collection) calls that
    go through the module-level name `fname`."""

    def __init__(self, fname):
        self.fname = fname
        self.calls = []
        self.depth = 0

    def __enter__(self):
        self.mod = V()
        self.orig = getattr(self.mod, self.fname)
        sig = inspect.signature(self.orig)

        def wrapper(*a, **k):
            if self.depth > 0:
                try:
                    b = sig.bind(*a, **k)
                    b.apply_defaults()
                    rec = dict(b.arguments)
                    rec["x"] = np.array(rec["x"], copy=True)
                    self.calls.append(rec)
                except TypeError:
                    self.calls.append({"bind_error": True})
            self.depth += 1
            try:
                return self.orig(*a, **k)
            finally:
                self.depth -= 1
        setattr(self.mod, self.fname, wrapper)
        return self

    def __exit__(self, *a):
        setattr(self.mod, self.fname, self.orig)


def table_id(table, v):
    for i, t in enumerate(table):
        if (t is None and v is None) or (t is not None and v is not None and t == v):
            return i
    return -2


def enc_none(v):
    return -1 if v is None else int(v)


def run_grouped_filter(ctx, case):
    """kfilt / fk with a collection: numeric oracle (grouped == per-group call, same settings)
    and the observed forwarded settings (flat encoding of Run.v op 5 / 6)."""
    rng = np.random.default_rng(case["seed"])
    nc, ns = case["nc"], case["ns"]
    coll = np.array(case["coll"], dtype=np.int64)
    x = rng.standard_normal((nc, ns))
    x[:, 0] = np.arange(nc)           # row tag (first sample) so that the spy can tell which rows were passed
    v = V()
    if case["fn"] == "kfilt":
        kw = dict(ntr_pad=case["pad"], ntr_tap=case["tap"], lagc=case["lagc"],
                  butter_kwargs=None if case["butter"] < 0 else dict(BUTTERS[case["butter"]]))
        ref_kw = dict(kw, ntr_pad=0, ntr_tap=None)
        fn = v.kfilt
    else:
        kw = dict(si=FK_SI[case["si"]], dx=FK_DX[case["dx"]], vbounds=None if case["vb"] < 0 else FK_VB[case["vb"]],
                  btype=case.get("bt_str") or FK_BT[case["bt"]], ntr_pad=case["pad"], ntr_tap=case["tap"],
                  lagc=FK_LAGC[case["lagc"] + 1], kfilt=FK_KF[case["kf"] + 1])
        ref_kw = dict(kw)
        fn = v.fk
    inp = {k: case[k] for k in case}
    tags = {"kind": case["fn"] + "_groups"}

    def call(f, xx, **k):
        with warnings.catch_warnings():
            warnings.simplefilter("ignore")
            try:
                r = f(xx.copy(), **k)
            except Exception as e:      # e.g. scipy's padlen check on a small group
                return type(e).__name__
            return canon(r, xx.shape, case["fn"]).astype(float)      # BadReturn propagates to the caller

    with Spy(case["fn"]) as spy:
        y = call(getattr(v, case["fn"]), x, collection=coll, **kw)
    refs = {}
    err = None
    for c in np.unique(coll):
        sel = coll == c
        refs[c] = call(fn, x[sel], **ref_kw)
        if isinstance(refs[c], str) and err is None:
            err = refs[c]
    if case.get("expect_error"):
        return [-1] if (isinstance(y, str) and err is not None) else [0]
    if isinstance(y, str) or err is not None:
        if not (isinstance(y, str) and y == err):
            ctx.fail("%s with groups raised %s but the per-group calls gave %s" % (case["fn"], y if isinstance(y, str) else "a result", err),
                     inp, tags)
        return None
    scale = max(1.0, float(np.max(np.abs(x))))
    for c in np.unique(coll):
        sel = coll == c
        if y[sel].shape != refs[c].shape or np.max(np.abs(y[sel] - refs[c])) > TOL * scale:
            ctx.fail("%s with channel groups differs from filtering the group on its own with the same settings"
                     % case["fn"], inp, dict(tags, setting=case.get("vary", "")))
            break
    # observed forwarded settings
    calls = [c for c in spy.calls]
    if not calls:
        return "unobserved"
    obs = [len(calls)]
    for c, rec in zip(np.unique(coll), calls):
        if rec.get("bind_error"):
            return [-5]
        rows = [int(round(t)) for t in rec["x"][:, 0]]
        obs += [int(c), len(rows)] + rows
        if case["fn"] == "kfilt":
            obs += [enc_none(rec["ntr_pad"]), enc_none(rec["ntr_tap"]), enc_none(rec["lagc"]),
                    -1 if rec["butter_kwargs"] is None else table_id(BUTTERS, rec["butter_kwargs"]),
                    1 if rec["gpu"] else 0]
        else:
            obs += [table_id(FK_SI, rec["si"]), table_id(FK_DX, rec["dx"]), table_id(FK_VB, rec["vbounds"]),
                    bt_code(rec["btype"]), enc_none(rec["ntr_pad"]), enc_none(rec["ntr_tap"]),
                    table_id(FK_LAGC, rec["lagc"]) - 1, table_id(FK_KF, rec["kfilt"]) - 1]
    return obs


def enc_filter_case(case):
    if case["fn"] == "kfilt":
        return [5, case["pad"], enc_none(case["tap"]), enc_none(case["lagc"]), case["butter"], 0,
                len(case["coll"])] + list(case["coll"])
    return [6, case["si"], case["dx"], case["vb"], case["bt"], case["pad"], enc_none(case["tap"]),
            case["lagc"], case["kf"], len(case["coll"])] + list(case["coll"])


def impl_adc(ver_code, nc):
    import neuropixel
    ver = {1: 1, 2: 2, 24: 2.4, 0: "NPultra", 3: 3}[ver_code]
    if ver_code == 3:
        try:
            neuropixel.adc_shifts(version=ver, nc=nc)
        except Exception:
            return [-1]               # unknown probe version: the call fails (adc_channels unbound)
        return [0]
    ss, adc = neuropixel.adc_shifts(version=ver, nc=nc)
    ncyc = 16 if ver_code in (2, 24) else 13
    nums = ss * ncyc
    out = [ncyc, len(ss)]
    for a, b in zip(nums, adc):
        out += [int(round(a)) if abs(a - round(a)) < 1e-9 else -7777, int(b)]      # -7777: not a multiple of 1/n_cycles
    return out


# --------------------------------------------------------------------------
# destripe: label restriction, composed from the real stage functions + the model's index vectors
# --------------------------------------------------------------------------
def header_for(gen):
    import neuropixel
    if gen == "NP1":
        return neuropixel.trace_header(version=1), 1
    if gen == "NP2":
        return neuropixel.trace_header(version=2), 2
    if gen == "NP2.4":
        return neuropixel.trace_header(version=2, nshank=4), 2
    return neuropixel.trace_header(version="NPultra"), 1      # NPultra: NP1 ADC table


class StageTracer:
    """Records the order in which destripe hands the data to its stages, and how many rows each
    stage receives: 1 scipy.signal.sosfiltfilt (outside the spatial filter), 2 fourier.fshift,
    3 interpolate_bad_channels, 4 kfilt / car.  Works by temporarily replacing the names through
    which voltage.py reaches them; a stage reached another way is simply not recorded."""

    def __init__(self):
        self.trace = []
        self.depth = 0

    def _wrap(self, code, fn, argpos=0, argname=None, spatial=False):
        def w(*a, **k):
            if self.depth == 0:
                arr = k[argname] if (argname in k) else a[argpos]
                self.trace.append((code, int(np.shape(arr)[0])))
            if spatial:
                self.depth += 1
            try:
                return fn(*a, **k)
            finally:
                if spatial:
                    self.depth -= 1
        return w

    def __enter__(self):
        v = V()
        self.saved = [(scipy.signal, "sosfiltfilt", scipy.signal.sosfiltfilt),
                      (v.fourier, "fshift", v.fourier.fshift),
                      (v, "interpolate_bad_channels", v.interpolate_bad_channels),
                      (v, "kfilt", v.kfilt), (v, "car", v.car),
                      (v, "detect_bad_channels", v.detect_bad_channels)]
        scipy.signal.sosfiltfilt = self._wrap(1, scipy.signal.sosfiltfilt, 1, "x")
        v.fourier.fshift = self._wrap(2, v.fourier.fshift, 0, "w")
        v.interpolate_bad_channels = self._wrap(3, v.interpolate_bad_channels, 0, "data")
        v.kfilt = self._wrap(4, v.kfilt, 0, "x", spatial=True)
        v.car = self._wrap(4, v.car, 0, "x", spatial=True)
        v.detect_bad_channels = self._wrap(5, v.detect_bad_channels, 0, "raw", spatial=True)
        return self

    def __exit__(self, *a):
        for obj, name, fn in self.saved:
            setattr(obj, name, fn)


def destripe_call(case, x, labels, tracer=None):
    v = V()
    h, nv = header_for(case["gen"])
    if case.get("no_version"):
        nv = None
    lab = None if labels is None else np.array(labels)
    mode = case.get("labels_mode", "given")
    if mode == "detect":
        lab = True
    elif mode == "false":
        lab = False
    extra = {}
    if case.get("butter") is not None:
        extra["butter_kwargs"] = dict(case["butter"])
    with warnings.catch_warnings():
        warnings.simplefilter("ignore")
        if tracer is not None:
            with tracer:
                return destripe_call(case, x, labels)
        if case["lfp"]:
            return canon(v.destripe_lfp(x.copy(), case["fs"], h=h, channel_labels=lab, k_filter=case["k_filter"],
                                        **extra), x.shape, "destripe_lfp")
        if case.get("kk") is not None:
            extra["k_kwargs"] = {k: (dict(val) if isinstance(val, dict) else val) for k, val in case["kk"].items()}
        return canon(v.destripe(x.copy(), case["fs"], h=h, neuropixel_version=nv, channel_labels=lab,
                                k_filter=case["k_filter"], **extra), x.shape, "destripe")


def destripe_input(case):
    r = np.random.default_rng(case["seed"])
    ns = case["ns"]
    if case.get("labels_mode") == "detect":
        # a common slow signal on the channels inside the brain, a dead and a noisy channel, quiet channels outside
        common = np.cumsum(r.standard_normal(ns)) * 2e-6
        x = r.standard_normal((384, ns)) * 8e-6 + (common - common.mean())
        x[30] = r.standard_normal(ns) * 1e-8
        x[100] += r.standard_normal(ns) * 2e-4
        x[350:] = r.standard_normal((34, ns)) * 3e-6
        return x
    return r.standard_normal((384, ns)) * 1e-5


def detect_labels(case, x):
    with warnings.catch_warnings():
        warnings.simplefilter("ignore")
        if case["lfp"]:
            lab, _ = V().detect_bad_channels(x.copy(), fs=case["fs"], psd_hf_threshold=1.4)
        else:
            lab, _ = V().detect_bad_channels(x.copy(), case["fs"])
    return [int(v) for v in lab]


def destripe_expected(case, x, labels, inside):
    """butter -> fshift -> interpolate_bad_channels -> spatial on `inside` rows (the MODEL's index vector)."""
    from ibldsp import fourier
    v = V()
    h, nv = header_for(case["gen"])
    fs = case["fs"]
    if case["lfp"]:
        bk = {"N": 3, "Wn": [0.5, 300], "btype": "bandpass", "fs": fs}
    else:
        bk = {"N": 3, "Wn": 300 / fs * 2, "btype": "highpass"}
    lagc = None if fs < 3000 else int(fs / 10)
    kk = {"ntr_pad": 60, "ntr_tap": 0, "lagc": lagc, "butter_kwargs": {"N": 3, "Wn": 0.01, "btype": "highpass"}}
    if case.get("butter") is not None:
        bk = dict(case["butter"])
    if case.get("kk") is not None and not case["lfp"]:
        kk = {k: (dict(val) if isinstance(val, dict) else val) for k, val in case["kk"].items()}
    sos = scipy.signal.butter(**bk, output="sos")
    pre = scipy.signal.sosfiltfilt(sos, x)
    if not case.get("no_version"):
        pre = fourier.fshift(pre, h["sample_shift"], axis=1)
    with warnings.catch_warnings():
        warnings.simplefilter("ignore")
        if labels is None:
            return pre, (v.kfilt(pre.copy(), **kk) if case["k_filter"] else v.car(pre.copy(), **kk))
        pre = v.interpolate_bad_channels(pre, np.array(labels), h["x"], h["y"])
        exp = pre.copy()
        sub = pre[inside, :]
        exp[inside, :] = v.kfilt(sub, **kk) if case["k_filter"] else v.car(sub, **kk)
    return pre, exp


def gen_labels(rng, kind, n=384):
    lab = [0] * n
    if kind == "top":
        k = rng.choice([1, 2, 10, 60, 100, 200])
        for i in range(n - k, n):
            lab[i] = 3
    elif kind == "scattered":
        for i in rng.sample(range(n), rng.choice([1, 5, 40])):
            lab[i] = 3
    elif kind == "mixed":
        k = rng.choice([5, 30, 80])
        for i in range(n - k, n):
            lab[i] = 3
        for i in rng.sample(range(n - k), 12):
            lab[i] = rng.choice([1, 2])
        for i in rng.sample(range(n), 3):
            lab[i] = 3
    elif kind == "bottom_and_first":
        lab[0] = 3
        lab[1] = 3
        lab[n - 1] = 3
    elif kind == "bad_only":
        for i in rng.sample(range(n), 10):
            lab[i] = rng.choice([1, 2])
    return lab


# --------------------------------------------------------------------------
# measurements on the real destripe (not proofs)
# --------------------------------------------------------------------------
def db(a, b):
    return 20 * np.log10(max(np.sqrt(np.mean(a ** 2)), 1e-300) / np.sqrt(np.mean(b ** 2)))


def temporal_ref(fs, lfp, x):
    if lfp:
        sos = scipy.signal.butter(N=3, Wn=[0.5, 300], btype="bandpass", fs=fs, output="sos")
    else:
        sos = scipy.signal.butter(N=3, Wn=300 / fs * 2, btype="highpass", output="sos")
    return scipy.signal.sosfiltfilt(sos, x)


def stripe_waveform(kind, fs, lfp, ns, seed):
    """band-limited common disturbance u(t) (seconds -> volts), as a function that can be sampled at any instant."""
    r = np.random.default_rng(seed)
    lo, hi = (2.0, 280.0) if lfp else (400.0, 9000.0)
    if kind == "burst":
        fr = r.uniform(lo, hi, 3)
        ph = r.uniform(0, 2 * np.pi, 3)
        t0, wd = ns / 2 / fs, ns / 12 / fs
        return lambda t: sum(np.sin(2 * np.pi * f * (t - t0) + p) for f, p in zip(fr, ph)) * np.exp(-((t - t0) / wd) ** 2)
    if kind == "periodic":        # periodic over the window: integer numbers of cycles
        T = ns / fs
        ks = [int(k) for k in r.integers(max(1, int(lo * T)) + 1, int(hi * T), 12)]
        ph = r.uniform(0, 2 * np.pi, 12)
        am = r.uniform(0.2, 1, 12)
        return lambda t: sum(a * np.sin(2 * np.pi * k / T * t + p) for a, k, p in zip(am, ks, ph))
    raise ValueError(kind)


def model_delays(ex):
    """physical ADC sampling delays (in samples) of the 384 channels, from the MODEL's table
    (theorem C05_adc_delay_table), not from the implementation under test"""
    out = {}
    for gen, ver in (("NP1", 1), ("NP2", 2), ("NP2.4", 2), ("NPultra", 0)):
        m = ex.run_many([[7, ver, 384]], nproc=1)[0]
        out[gen] = np.array(m[2::2][:384], dtype=float) / m[0]
    return out


def header_sequence(ctx, ex, dist):
    """Stateful sequence: destripe(neuropixel_version=v) builds its header internally; a caller that has
    edited, in place, the header / table it obtained earlier must not change later results.  Run last."""
    import neuropixel
    v = V()
    delays = model_delays(ex)
    fs, ns = 30000, 2048
    t = np.arange(ns) / fs
    dist["header_sequences"] = 0
    for gen, ver in (("NP1", 1), ("NP2", 2)):
        u = stripe_waveform("burst", fs, False, ns, 21)
        st = np.stack([u(t + s / fs) for s in delays[gen]]) * 200e-6
        ref = temporal_ref(fs, False, st)
        case = {"kind": "header_sequence", "version": ver}
        try:
            with warnings.catch_warnings():
                warnings.simplefilter("ignore")
                y0 = v.destripe(st.copy(), fs, neuropixel_version=ver, k_filter=False)
                h = neuropixel.trace_header(version=ver)
                h["sample_shift"] *= 0                      # the caller's own copy, edited in place
                h["sample_shift"] += 0.5
                ss, adc = neuropixel.adc_shifts(version=ver)
                ss += 3
                adc *= 0
                y1 = v.destripe(st.copy(), fs, neuropixel_version=ver, k_filter=False)
                tbl = impl_adc(ver, 384)
        except Exception as e:
            ctx.fail("header sequence raised %r" % (e,), case, {"kind": "exception"})
            continue
        dist["header_sequences"] += 1
        att0, att1 = -db(y0, ref), -db(y1, ref)
        ctx.measurements.setdefault("stripe_attenuation_after_header_edit_db", {})[gen] = \
            [round(float(att0), 1), round(float(att1), 1)]
        if att1 < 40.0 or np.max(np.abs(y1 - y0)) > TOL * float(np.max(np.abs(ref))):
            ctx.fail("after the caller edited, in place, a header obtained from trace_header(), "
                     "destripe(neuropixel_version=%s) without h changed: stripe attenuation %.1f dB before, %.1f dB after"
                     % (ver, att0, att1), case, {"kind": "header_aliasing"})
        m = ex.run_many([[7, ver, 384]], nproc=1)[0]
        if tbl != m:
            ctx.disagree("adc_shifts returns a different table after a caller edited an earlier result in place", case)


def measure(ctx, delays):
    v = V()
    res = {"stripe_attenuation_db": {}, "stripe_attenuation_whole_window_db": {}, "stripe_with_noise_db": {}, "spike_kept": {}}
    worst_att = 1e9
    worst_noise = 1e9
    worst_spike = 1e9
    configs = [("NP1", False, 30000), ("NP2", False, 30000), ("NPultra", False, 30000), ("NP2.4", False, 30000),
               ("NP1", True, 2500), ("NP2", True, 2500)]
    spatial = [("kfilt", True, None), ("median", False, None), ("average", False, {"operator": "average"})]
    ns = 4096 if not ctx.thorough() else 8192
    for gen, lfp, fs in configs:
        h, nv = header_for(gen)
        t = np.arange(ns) / fs
        noise = np.random.default_rng(11).standard_normal((384, ns)) * 5e-6
        for sname, kf, kk in spatial:
            if lfp and kk is not None:
                continue            # destripe_lfp has no k_kwargs argument

            def run(x):
                with warnings.catch_warnings():
                    warnings.simplefilter("ignore")
                    if lfp:
                        return v.destripe_lfp(x.copy(), fs, h=h, k_filter=kf)
                    return v.destripe(x.copy(), fs, h=h, neuropixel_version=nv, k_filter=kf, k_kwargs=kk)
            y0 = None
            for wk, amp, seed in (("burst", 200e-6, 3), ("periodic", 50e-6, 4), ("burst", 2e-3, 5)):
                if gen in ("NPultra", "NP2.4") and wk == "periodic":
                    continue
                u = stripe_waveform(wk, fs, lfp, ns, seed)
                st = np.stack([u(t + s / fs) for s in delays[gen]]) * amp
                ref = temporal_ref(fs, lfp, st)
                key = "%s/%s/%s/%s%g" % (gen, "lfp" if lfp else "ap", sname, wk, amp)
                try:
                    y = run(st)
                except Exception as e:
                    ctx.fail("destripe raised %r on a common-mode stripe" % (e,), {"kind": "measure", "config": key},
                             {"kind": "exception"})
                    continue
                if wk == "periodic":
                    # the stripe does not vanish at the window edges: the edge transient of the temporal
                    # sosfiltfilt (applied before the re-alignment) is not common to the channels; the bound is
                    # evaluated on the interior [10 %, 90 %], the whole-window figure is recorded
                    a = ns // 10
                    res["stripe_attenuation_whole_window_db"][key] = round(float(-db(y, ref)), 1)
                    att = -db(y[:, a:ns - a], ref[:, a:ns - a])
                else:
                    att = -db(y, ref)
                res["stripe_attenuation_db"][key] = round(float(att), 1)
                tags = {"kind": "stripe_attenuation", "band": "lfp" if lfp else "ap", "waveform": wk}
                if att < 40.0:
                    ctx.fail("ADC-skewed common stripe attenuated by only %.1f dB (< 40 dB)" % att,
                             {"kind": "measure", "what": "stripe", "config": key}, tags)
                if not (lfp and wk == "periodic"):
                    worst_att = min(worst_att, att)
                if wk == "burst" and amp == 200e-6:
                    if y0 is None:
                        y0 = run(noise)
                    y2 = run(st + noise)
                    attn = -db(y2 - y0, ref)
                    res["stripe_with_noise_db"][key] = round(float(attn), 1)
                    worst_noise = min(worst_noise, attn)
                    if attn < 40.0:
                        ctx.fail("stripe over background noise attenuated by only %.1f dB (< 40 dB)" % attn,
                                 {"kind": "measure", "what": "stripe+noise", "config": key},
                                 {"kind": "stripe_attenuation", "band": "lfp" if lfp else "ap", "waveform": "burst+noise"})
            # stripe with dead / noisy channels to interpolate and channels outside the brain: the repaired
            # channels must be interpolated from ALIGNED neighbours (interpolation after the re-alignment)
            if gen in ("NP1", "NP2") and kk is None and not lfp:
                u = stripe_waveform("burst", fs, lfp, ns, 7)
                st = np.stack([u(t + s / fs) for s in delays[gen]]) * 200e-6
                ref = temporal_ref(fs, lfp, st)
                lab = np.zeros(384, dtype=int)
                lab[364:] = 3
                bad = [5, 40, 41, 77, 120, 121, 200, 255, 256, 300, 333, 350]
                lab[bad] = [1, 2] * 6
                xin = st.copy()
                xin[bad[0::2]] = 0                                            # dead channels
                xin[bad[1::2]] += np.random.default_rng(13).standard_normal((6, ns)) * 1e-3     # noisy channels
                key = "%s/ap/%s/labels" % (gen, sname)
                try:
                    with warnings.catch_warnings():
                        warnings.simplefilter("ignore")
                        yl = v.destripe(xin.copy(), fs, h=h, neuropixel_version=nv, k_filter=kf, channel_labels=lab)
                    ins = np.where(lab != 3)[0]
                    attl = -db(yl[ins], ref[ins])
                    res["stripe_attenuation_db"][key] = round(float(attl), 1)
                    worst_att = min(worst_att, attl)
                    if attl < 40.0:
                        ctx.fail("stripe with interpolated bad channels attenuated by only %.1f dB (< 40 dB)" % attl,
                                 {"kind": "measure", "what": "stripe+labels", "config": key},
                                 {"kind": "stripe_attenuation", "band": "ap", "waveform": "burst+labels"})
                except Exception as e:
                    ctx.fail("destripe raised %r on a stripe with channel labels" % (e,),
                             {"kind": "measure", "config": key}, {"kind": "exception"})
            if lfp:
                continue
            # local spike on 3 neighbouring channels, 20 depths
            if y0 is None:
                y0 = run(noise)
            kept = []

            def spike(tt, t0):
                uu = (tt - t0) * 1e3
                return -np.exp(-(uu / 0.12) ** 2) + 0.35 * np.exp(-((uu - 0.35) / 0.25) ** 2)
            tsp = ns / 2 / fs
            ref = temporal_ref(fs, lfp, 100e-6 * spike(t, tsp))
            ipk = int(np.argmax(np.abs(ref)))
            depths = [int(d) for d in np.linspace(1, 382, 20 if (ctx.thorough() or gen in ("NP1", "NP2")) else 5)]
            for c in depths:
                sp = np.zeros((384, ns))
                for dc, a in ((-1, 0.6), (0, 1.0), (1, 0.6)):
                    sp[c + dc] = a * 100e-6 * spike(t + delays[gen][c + dc] / fs, tsp)
                d = (run(noise + sp) - y0)[c]
                kept.append(float(d[ipk] / ref[ipk]))
            key = "%s/%s" % (gen, sname)
            res["spike_kept"][key] = [round(min(kept), 4), round(max(kept), 4), len(kept)]
            worst_spike = min(worst_spike, min(kept))
            if min(kept) < 0.90:
                ctx.fail("local 3-channel spike keeps only %.3f of its high-passed amplitude (< 0.90)" % min(kept),
                         {"kind": "measure", "what": "spike", "config": key}, {"kind": "spike_kept"})
    res["worst_stripe_attenuation_db"] = round(float(worst_att), 1)
    res["worst_stripe_with_noise_db"] = round(float(worst_noise), 1)
    res["worst_spike_kept"] = round(float(worst_spike), 4)
    res["bounds"] = {"stripe_attenuation_db": ">= 40", "spike_kept": ">= 0.90"}
    ctx.measurements.update(res)


# --------------------------------------------------------------------------
# generators
# --------------------------------------------------------------------------
def gen_matrix(rng, nc, ns):
    kind = rng.random()
    xd = rng.choice([1, 1, 1, 2, 4])
    if kind < 0.35:
        vals = [rng.randint(-3, 3) for _ in range(nc * ns)]          # many ties
    elif kind < 0.7:
        vals = [rng.randint(-50, 50) for _ in range(nc * ns)]
    elif kind < 0.85:
        base = [rng.randint(-9, 9) for _ in range(ns)]                # a common stripe on every row (+ sparse spikes)
        vals = [base[j] + (rng.randint(-20, 20) if rng.random() < 0.1 else 0) for _ in range(nc) for j in range(ns)]
    else:
        vals = [rng.choice([0, 0, 0, 1, -1, 1000, -1000]) for _ in range(nc * ns)]
    return [vals[i * ns:(i + 1) * ns] for i in range(nc)], xd


def gen_coll(rng, sizes):
    labs = rng.sample(range(-5, 12), len(sizes))
    coll = [l for l, s in zip(labs, sizes) for _ in range(s)]
    mode = rng.random()
    if mode < 0.6:
        rng.shuffle(coll)           # interleaved groups (shanks are interleaved on NP2.4)
    elif mode < 0.8:
        coll.sort(reverse=True)
    return coll


def gen_car_cases(ctx):
    rng = ctx.rng
    cases = []
    n = 900 if ctx.thorough() else 260
    for _ in range(n):
        ng = rng.randint(2, 5)
        sizes = [rng.randint(1, 7) for _ in range(ng)]
        if rng.random() < 0.15:
            ng = 1
            sizes = [rng.randint(1, 9)]
        nc = sum(sizes)
        ns = rng.choice([1, 1, 2, 3, 4, 6])
        x, xd = gen_matrix(rng, nc, ns)
        r = rng.random()
        coll = None if r < 0.2 else gen_coll(rng, sizes)
        case = {"kind": "car", "op": rng.choice([0, 0, 1, 1, 1, 2]), "coll": coll, "nc": nc, "ns": ns, "xd": xd, "x": x}
        cases.append(case)
    # every operator x a fixed structured block: equal rows (stripe), even / odd group sizes
    for op in (0, 1, 2):
        for sizes in ([1, 1], [2, 2], [3, 4], [7, 1, 2], [1, 2, 3, 4, 5], [6, 6]):
            nc = sum(sizes)
            row = [4, -7, 0]
            cases.append({"kind": "car", "op": op, "coll": [i for i, s in enumerate(sizes) for _ in range(s)],
                          "nc": nc, "ns": 3, "xd": 1, "x": [list(row) for _ in range(nc)]})
            cases.append({"kind": "car", "op": op, "coll": [(i * 7) % 3 for i in range(nc)], "nc": nc, "ns": 2,
                          "xd": 2, "x": [[(i * i) % 7 - 3, 5 - i] for i in range(nc)]})
    # representation variants: dtype, memory layout, collection as list / float array
    base = list(cases)
    for i, c in enumerate(base[: (240 if ctx.thorough() else 90)]):
        v = dict(c)
        v["layout"] = ["C", "F", "view"][i % 3]
        v["coll_rep"] = ["array", "list", "float"][(i // 3) % 3]
        ints = c["xd"] == 1
        v["dtype"] = ["f32", "i64", "i16", "f64"][i % 4] if ints else ["f32", "f64"][i % 2]
        cases.append(v)
    # malformed: collection of the wrong length / empty
    for _ in range(30 if ctx.thorough() else 12):
        nc = rng.randint(1, 6)
        ns = rng.randint(1, 3)
        x, xd = gen_matrix(rng, nc, ns)
        m = rng.choice([0, 1, nc - 1, nc + 1, nc + 3])
        m = max(0, m)
        coll = [rng.randint(0, 2) for _ in range(m)]
        cases.append({"kind": "car", "op": rng.choice([0, 1]), "coll": coll, "nc": nc, "ns": ns, "xd": xd, "x": x})
    return cases


AGC_WLSI = [  # (wl, si, p, q) with wl / si = p / q exactly ; ns_win = 2 * round_half_even(p / 2q) + 1 in {1, 3, 5, 7}
    (0.5, 1.0, 1, 2), (1.0, 1.0, 1, 1), (2.0, 1.0, 2, 1), (3.0, 1.0, 3, 1), (4.0, 1.0, 4, 1), (5.0, 1.0, 5, 1),
    (6.0, 1.0, 6, 1), (1.0, 0.5, 2, 1), (1.5, 0.5, 3, 1), (0.75, 0.25, 3, 1), (1.5, 0.25, 6, 1), (0.0, 1.0, 0, 1),
    (2.5, 0.5, 5, 1), (3.25, 0.5, 13, 2), (1.25, 0.5, 5, 2), (3, 1.0, 3, 1), (6, 1.0, 6, 1), (2, 1.0, 2, 1),
]


def gen_agc_cases(ctx):
    rng = ctx.rng
    cases = []
    n = 500 if ctx.thorough() else 160
    for i in range(n):
        wl, si, p, q = AGC_WLSI[i % len(AGC_WLSI)]
        nswin = int(np.round(wl / si / 2) * 2 + 1)
        w, wd = agc_window(nswin)
        nc = rng.randint(1, 5)
        ns = rng.choice([1, 2, 3, 4, 5, 7, 8, 9, 12])
        x, xd = gen_matrix(rng, nc, ns)
        if rng.random() < 0.4:
            x[rng.randrange(nc)] = [0] * ns          # a dead channel
        en, ed = rng.choice([(1, 10 ** 8), (1, 10 ** 8), (1, 8), (1, 2), (1, 1), (3, 1)])
        cases.append({"kind": "agc", "wl": wl, "si": si, "p": p, "q": q, "w": w, "wd": wd, "en": en, "ed": ed,
                      "nc": nc, "ns": ns, "xd": xd, "x": x})
        if i % 5 == 0:
            cases.append(dict(cases[-1], dtype="f32"))
        if i % 40 == 7 and xd == 1:
            cases.append(dict(cases[-1], dtype="i64"))        # integer array: divided in place, truncated
    return cases


def gen_filter_cases(ctx):
    rng = ctx.rng
    cases = []
    nk = 40 if ctx.thorough() else 14
    for i in range(nk):
        ng = rng.randint(2, 4)
        sizes = [rng.choice([13, 14, 16, 20, 25]) for _ in range(ng)]
        if i % 7 == 6:
            sizes[0] = rng.choice([3, 12])            # scipy's padlen check fails identically in both
        coll = gen_coll(rng, sizes)
        cases.append({"kind": "filter", "fn": "kfilt", "seed": rng.randrange(10 ** 6), "nc": len(coll),
                      "ns": rng.choice([8, 16, 30]), "coll": coll, "pad": rng.choice([0, 3, 60]),
                      "tap": rng.choice([None, 0, 2]), "lagc": rng.choice([None, 0, 2, 3, 6, 10, 299, 300, 301]),
                      "butter": rng.choice([-1, 0, 1, 2, 3])})
    for i in range(nk):
        ng = rng.randint(2, 4)
        sizes = [rng.randint(2, 9) for _ in range(ng)]
        coll = gen_coll(rng, sizes)
        cases.append({"kind": "filter", "fn": "fk", "seed": rng.randrange(10 ** 6), "nc": len(coll),
                      "ns": rng.choice([8, 16, 27]), "coll": coll, "si": rng.randrange(3), "dx": rng.randrange(3),
                      "vb": rng.randrange(3), "bt": rng.randrange(2), "pad": rng.choice([0, 1, 2]),
                      "tap": rng.choice([None, 0, 1]), "lagc": rng.choice([-1, 0, 1, 2, 3]),
                      "kf": rng.choice([-1, 0, 1])})
    # one-setting-at-a-time variations from the defaults (a dropped keyword falls back to the default)
    base_k = {"kind": "filter", "fn": "kfilt", "nc": 30, "ns": 16, "coll": [0, 1] * 15, "pad": 0, "tap": None,
              "lagc": 300, "butter": -1}
    for vary, val in (("lagc", 4), ("lagc", None), ("butter", 2), ("pad", 5), ("tap", 3)):
        c = dict(base_k, seed=1000 + len(cases), vary=vary)
        c[vary] = val
        cases.append(c)
    base_f = {"kind": "filter", "fn": "fk", "nc": 12, "ns": 16, "coll": [0, 1, 2] * 4, "si": 1, "dx": 0, "vb": 0,
              "bt": 0, "pad": 0, "tap": None, "lagc": 1, "kf": -1}
    for vary, val in (("lagc", 3), ("lagc", -1), ("bt", 1), ("kf", 0), ("pad", 2), ("tap", 1), ("si", 0), ("dx", 2),
                      ("vb", 1)):
        c = dict(base_f, seed=2000 + len(cases), vary=vary)
        c[vary] = val
        cases.append(c)
    # fk: btype aliases (btype.lower() in ['highpass', 'hp'] / ['lowpass', 'lp']) and the argument guards
    for j, (code, name) in enumerate([(c, n) for c in (0, 1) for n in FK_BT_ALIASES[c][1:]]):
        cases.append(dict(base_f, seed=3100 + j, bt=code, bt_str=name, vary="btype_alias"))
    cases.append(dict(base_f, seed=3200, bt=2, bt_str="bandpass", expect_error=True, vary="btype_invalid"))
    cases.append(dict(base_f, seed=3201, vb=-1, expect_error=True, vary="vbounds_none"))
    # fk: a group smaller than ntr_pad with ntr_tap=None (the taper length follows the per-group clamp of the padding)
    for j, (coll, pad) in enumerate((([0] * 2 + [1] * 6, 4), ([3, 1, 3, 3, 1, 3, 3, 3, 3], 5), ([0] * 7 + [2] * 1, 3))):
        cases.append(dict(base_f, seed=3000 + j, nc=len(coll), coll=coll, pad=pad, tap=None, vary="pad_gt_group"))
    return cases


def gen_destripe_cases(ctx):
    rng = ctx.rng
    cases = []
    kinds = ["top", "scattered", "mixed", "bottom_and_first", "bad_only", "none3"]
    gens = ["NP1", "NP2", "NPultra", "NP2.4"]
    n = 40 if ctx.thorough() else 14
    for i in range(n):
        kind = kinds[i % len(kinds)]
        lfp = (i % 5 == 4)
        cases.append({"kind": "destripe", "gen": gens[i % 4], "lfp": lfp, "fs": 2500 if lfp else 30000,
                      "k_filter": bool(i % 2 == 0), "labels": gen_labels(rng, kind), "label_kind": kind,
                      "ns": rng.choice([256, 300, 401]), "seed": rng.randrange(10 ** 6)})
    # odd numbers of channels inside / outside the brain, median referencing
    for i, k in enumerate((21, 1, 101)):
        lab = [0] * 384
        for j in range(384 - k, 384):
            lab[j] = 3
        cases.append({"kind": "destripe", "gen": gens[i % 4], "lfp": i == 1, "fs": 2500 if i == 1 else 30000,
                      "k_filter": False, "labels": lab, "label_kind": "top_odd_%d" % k,
                      "ns": 256, "seed": rng.randrange(10 ** 6)})
    # channel_labels=True (labels detected from the raw data), channel_labels=False, caller-supplied
    # butter_kwargs / k_kwargs
    cases.append({"kind": "destripe", "gen": "NP1", "lfp": False, "fs": 30000, "k_filter": True, "labels": None,
                  "labels_mode": "detect", "label_kind": "detect", "ns": 3000, "seed": rng.randrange(10 ** 6)})
    cases.append({"kind": "destripe", "gen": "NP2", "lfp": True, "fs": 2500, "k_filter": False, "labels": None,
                  "labels_mode": "detect", "label_kind": "detect", "ns": 3000, "seed": rng.randrange(10 ** 6)})
    cases.append({"kind": "destripe", "gen": "NP1", "lfp": False, "fs": 30000, "k_filter": True, "labels": None,
                  "labels_mode": "false", "label_kind": "false", "ns": 256, "seed": rng.randrange(10 ** 6)})
    cases.append({"kind": "destripe", "gen": "NP2", "lfp": False, "fs": 30000, "k_filter": True,
                  "labels": gen_labels(rng, "mixed"), "label_kind": "mixed", "ns": 300, "seed": rng.randrange(10 ** 6),
                  "butter": {"N": 2, "Wn": 0.05, "btype": "highpass"},
                  "kk": {"ntr_pad": 10, "ntr_tap": 5, "lagc": 100,
                         "butter_kwargs": {"N": 2, "Wn": 0.05, "btype": "highpass"}}})
    cases.append({"kind": "destripe", "gen": "NP1", "lfp": False, "fs": 30000, "k_filter": False,
                  "labels": gen_labels(rng, "top"), "label_kind": "top", "ns": 256, "seed": rng.randrange(10 ** 6),
                  "kk": {"operator": "average"}})
    cases.append({"kind": "destripe", "gen": "NP1", "lfp": True, "fs": 2500, "k_filter": True,
                  "labels": gen_labels(rng, "top"), "label_kind": "top", "ns": 300, "seed": rng.randrange(10 ** 6),
                  "butter": {"N": 2, "Wn": [1, 200], "btype": "bandpass", "fs": 2500}})
    # without labels / without a probe version (no re-alignment)
    for i, (lab, nov, lfp) in enumerate([(None, False, False), (None, True, False), ("mixed", True, False),
                                         (None, False, True), ("bad_only", False, False), ("top", True, False)]):
        cases.append({"kind": "destripe", "gen": gens[i % 4], "lfp": lfp, "fs": 2500 if lfp else 30000,
                      "k_filter": bool(i % 2 == 1), "labels": None if lab is None else gen_labels(rng, lab),
                      "label_kind": lab or "no_labels", "no_version": nov,
                      "ns": rng.choice([256, 300]), "seed": rng.randrange(10 ** 6)})
    return cases


# --------------------------------------------------------------------------
def compare_q(ctx, what, model_out, flats, desc, tol=TOL):
    """model_out = 1 :: (num, den)* ; flats = implementation floats in the same order."""
    if not model_out or model_out[0] != 1:
        ctx.disagree("%s: model returned %s, implementation returned an array" % (what, model_out[:3]), desc)
        return
    mv = qpairs(model_out[1:])
    if len(mv) != len(flats):
        ctx.disagree("%s: model has %d values, implementation %d" % (what, len(mv), len(flats)), desc)
        return
    for k, (a, b) in enumerate(zip(flats, mv)):
        if not (np.isfinite(a) and abs(a - b) <= tol * max(1.0, abs(b))):
            ctx.disagree("%s: value %d: implementation %r, model %r" % (what, k, float(a), b), desc)
            return


def run(ctx):
    common.proof_obligations(ctx, whitelist=[])
    ex = common.Extracted(PROP)
    inputs, checks = [], []       # checks[i](model_output) performs the comparison for input i
    dist = {"car": 0, "car_grouped": 0, "car_malformed": 0, "agc": 0, "agc_dead_row": 0, "kfilt_groups": 0,
            "fk_groups": 0, "destripe_labels": 0, "adc_tables": 0, "filter_unobserved": 0, "agc_div0_skipped": 0}
    nontrivial = set()
    samples = []

    # ---- car
    for case in gen_car_cases(ctx):
        try:
            y = impl_car(case)
        except Exception as e:
            ctx.fail("car raised %r" % (e,), case, {"kind": "exception"})
            continue
        malformed = case["coll"] is not None and len(case["coll"]) != case["nc"]
        for b in oracle_car(case, y):
            ctx.fail(b, case, {"kind": "car", "operator": OPS[case["op"]],
                               "grouped": case["coll"] is not None,
                               "int_dtype": case.get("dtype", "f64") in ("i64", "i16")})
        dist["car_" + case.get("dtype", "f64")] = dist.get("car_" + case.get("dtype", "f64"), 0) + 1
        dist["car"] += 1
        dist["car_grouped"] += case["coll"] is not None and not malformed
        dist["car_malformed"] += malformed
        if case["coll"] is not None and not malformed and len(set(case["coll"])) > 1 and case["op"] < 2:
            nontrivial.add(json.dumps(case, sort_keys=True))
        inputs.append(enc_car(case))
        if (not isinstance(y, str)) and case["coll"] is not None and case.get("dtype", "f64") in ("i64", "i16"):
            # F-C05-e region: the implementation must agree with the faithful (truncating) model or with the
            # exact model (defect repaired); the second encoding is evaluated as an extra input
            alt = dict(case, dtype="f64")
            holder = {}
            checks.append(lambda m, holder=holder: holder.__setitem__("int", m))
            inputs.append(enc_car(alt))

            def both(m, case=case, y=y, holder=holder):
                for cand in (holder["int"], m):
                    n0 = len(ctx.disagreements)
                    compare_q(ctx, "car", cand, list(y.ravel()), case)
                    if len(ctx.disagreements) == n0:
                        return
                    del ctx.disagreements[n0:]
                ctx.disagree("car on an integer array with groups matches neither the truncating nor the exact model",
                             case)
            checks.append(both)
            continue
        if isinstance(y, str):
            checks.append(lambda m, case=case: m == [0] or ctx.disagree(
                "car: implementation raised IndexError, model returned %s" % m[:3], case))
        else:
            checks.append(lambda m, case=case, y=y: compare_q(
                ctx, "car", m, list(y.ravel()), case,
                tol=1e-6 * max(1.0, max(abs(v) for r in case["x"] for v in r)) if case.get("dtype") == "f32" else TOL))
        if len(samples) < 2 and case["coll"] is not None and not isinstance(y, str):
            samples.append({"call": "car", "operator": OPS[case["op"]], "collection": case["coll"],
                            "x": xarr(case).tolist(), "out": y.tolist()})

    # ---- agc
    for case in gen_agc_cases(ctx):
        try:
            with warnings.catch_warnings():
                warnings.simplefilter("ignore")
                out, gain = impl_agc(case)
        except Exception as e:
            ctx.fail("agc raised %r" % (e,), case, {"kind": "exception"})
            continue
        for b in oracle_agc(case, out, gain):
            ctx.fail(b, case, {"kind": "agc", "int_dtype": case.get("dtype") == "i64"})
        if case.get("dtype") == "i64":
            dist["agc_int_not_compared"] = dist.get("agc_int_not_compared", 0) + 1
            continue
        dist["agc"] += 1
        dist["agc_dead_row"] += any(all(v == 0 for v in r) for r in case["x"])
        if any(any(v != 0 for v in r) for r in case["x"]) and case["ns"] > 1:
            nontrivial.add(json.dumps(case, sort_keys=True))
        inputs.append(enc_agc(case))

        def chk(m, case=case, out=out, gain=gain):
            if m == [2]:
                dist["agc_div0_skipped"] += 1
                return
            compare_q(ctx, "agc (output, gain)", m, list(out.ravel()) + list(gain.ravel()), case,
                      tol=1e-4 if case.get("dtype") == "f32" else TOL)
        checks.append(chk)
        if len(samples) < 4 and case["nc"] <= 2 and case["ns"] <= 4:
            samples.append({"call": "agc", "wl": case["wl"], "si": case["si"], "epsilon": "%d/%d" % (case["en"], case["ed"]),
                            "x": xarr(case).tolist(), "out": out.tolist(), "gain": gain.tolist()})

    # ---- kfilt / fk with groups
    for case in gen_filter_cases(ctx):
        try:
            obs = run_grouped_filter(ctx, case)
        except Exception as e:
            ctx.fail("%s with groups raised %r" % (case["fn"], e), case, {"kind": "exception"})
            continue
        dist["kfilt_groups" if case["fn"] == "kfilt" else "fk_groups"] += 1
        if obs is None:
            continue
        nontrivial.add(json.dumps(case, sort_keys=True, default=str))
        if obs == "unobserved":
            dist["filter_unobserved"] += 1
            continue
        inputs.append(enc_filter_case(case))
        checks.append(lambda m, case=case, obs=obs: m == obs or ctx.disagree(
            "%s: per-collection calls / forwarded settings differ: implementation %s, model %s"
            % (case["fn"], obs[:24], m[:24]), case))
        if len(samples) < 6 and case.get("vary"):
            samples.append({"call": case["fn"] + " with collection", "case": {k: v for k, v in case.items() if k != "coll"},
                            "forwarded": obs[:24]})

    # ---- kfilt body: mirrored padding = filtering the explicitly padded block and cropping
    dist["kfilt_padding"] = 0
    rgp = np.random.default_rng(ctx.rng.randrange(10 ** 6))
    for nx, pad, lagc, tap in ((20, 3, None, 0), (16, 5, 4, 0), (30, 7, 300, 0), (14, 1, None, 0), (25, 12, 6, 0),
                               (40, 60, None, 0), (60, 60, None, 0), (61, 60, 300, 0), (50, 60, 300, 0),
                               # cosine taper: explicit length, default (None -> the clamped padding), longer than
                               # the padding, without padding, with gain control
                               (20, 3, None, 2), (16, 5, 4, None), (30, 0, 300, 4), (25, 12, 6, 12), (18, 2, None, 7),
                               (40, 60, None, None), (22, 4, 5, 1)):
        xk = rgp.standard_normal((nx, 12))
        case = {"kind": "kfilt_padding", "nx": nx, "pad": pad, "lagc": lagc, "tap": tap}
        try:
            with warnings.catch_warnings():
                warnings.simplefilter("ignore")
                a = V().kfilt(xk.copy(), ntr_pad=pad, ntr_tap=tap, lagc=lagc)
                # the model's structure (spatial_body): gain control, mirrored padding (clamped), taper, filter, crop, gain
                from ibldsp.utils import fcn_cosine
                npad = min(pad, nx)
                ntap = npad if tap is None else tap
                nxp = nx + 2 * npad
                if lagc:
                    xa, gain = V().agc(xk.copy(), wl=lagc, si=1.0)
                else:
                    xa, gain = xk.copy(), 1
                padded = np.r_[np.flipud(xa[:npad]), xa, np.flipud(xa[-npad:])] if npad > 0 else xa
                if ntap > 0:
                    tp = fcn_cosine([0, ntap])(np.arange(nxp)) * (1 - fcn_cosine([nxp - ntap, nxp])(np.arange(nxp)))
                    if np.min(tp) < -1e-12 or np.max(tp) > 1 + 1e-12:
                        ctx.fail("kfilt taper leaves [0, 1]", case, {"kind": "taper"})
                    padded = padded * tp[:, np.newaxis]
                b = V().kfilt(padded.copy(), ntr_pad=0, ntr_tap=0, lagc=None)
                if not (isinstance(a, np.ndarray) and isinstance(b, np.ndarray) and a.ndim == 2 and b.ndim == 2):
                    raise BadReturn("kfilt returned %s / %s" % (type(a).__name__, type(b).__name__))
                b = b[npad:npad + nx] * gain
        except Exception as e:
            ctx.fail("kfilt with padding raised %r" % (e,), case,
                     {"kind": "kfilt_pad_gt_nx" if pad > nx else "exception"})
            continue
        dist["kfilt_padding"] += 1
        try:
            with warnings.catch_warnings():
                warnings.simplefilter("ignore")
                af = V().fk(xk.copy(), si=0.002, dx=1, vbounds=[2, 4], ntr_pad=pad, ntr_tap=tap, lagc=None)
            if not isinstance(af, np.ndarray) or af.shape != xk.shape:
                ctx.fail("fk returned shape %s for an input of shape %s (ntr_pad=%d)" % (np.shape(af), xk.shape, pad),
                         dict(case, fn="fk"), {"kind": "kfilt_pad_gt_nx" if pad > nx else "kfilt_shape"})
        except Exception as e:
            ctx.fail("fk with padding raised %r" % (e,), dict(case, fn="fk"),
                     {"kind": "kfilt_pad_gt_nx" if pad > nx else "exception"})
        if a.shape != xk.shape:
            ctx.fail("kfilt returned shape %s for an input of shape %s (ntr_pad=%d)" % (a.shape, xk.shape, pad), case,
                     {"kind": "kfilt_pad_gt_nx" if pad > nx else "kfilt_shape"})
        elif a.shape != b.shape or np.max(np.abs(a - b)) > TOL * max(1.0, np.max(np.abs(b))):
            ctx.disagree("kfilt(ntr_pad, ntr_tap, lagc) differs from: gain control, mirrored padding, cosine taper, "
                         "filter, crop, gain restored (the model's spatial_body structure)", case)

    # ---- adc tables
    for ver in (1, 2, 24, 0, 3):
        for nc in ((1, 2, 12, 13, 24, 25, 32, 33, 383, 384, 385) if ver != 3 else (384,)):
            try:
                obs = impl_adc(ver, nc)
            except Exception as e:
                ctx.fail("adc_shifts raised %r" % (e,), {"kind": "adc", "ver": ver, "nc": nc}, {"kind": "exception"})
                continue
            dist["adc_tables"] += 1
            inputs.append([7, 2 if ver == 24 else ver, nc])
            checks.append(lambda m, obs=obs, ver=ver, nc=nc: m == obs or ctx.disagree(
                "adc_shifts table differs from the model", {"kind": "adc", "ver": ver, "nc": nc}))

    # ---- destripe: label vectors -> the model's inside / outside index vectors and stage trace
    dcases = gen_destripe_cases(ctx)
    for case in dcases:
        if case.get("labels_mode") == "detect":
            try:
                case["labels"] = detect_labels(case, destripe_input(case))
            except Exception as e:
                ctx.fail("detect_bad_channels raised %r" % (e,), dict(case), {"kind": "exception"})
                case["labels"] = [0] * 384
        lab = case["labels"]
        inputs.append([3, 0] if lab is None else [3, len(lab)] + lab)
        checks.append(None)
        hl = 0 if lab is None else (2 if case.get("labels_mode") == "detect" else 1)
        inputs.append([8, 384, 0 if case.get("no_version") else 1, hl] + (lab or []))
        checks.append(None)
    model = ex.run_many(inputs, nproc=4)
    for m, chk in zip(model, checks):
        if chk is not None:
            chk(m)
    dmodel = model[len(model) - 2 * len(dcases):]
    dist["destripe_trace_compared"] = 0
    dist["destripe_trace_unobserved"] = 0
    def one_destripe(k, case):
        m, mtrace = dmodel[2 * k], dmodel[2 * k + 1]
        n_in = m[0]
        inside = m[1:1 + n_in]
        outside = m[2 + n_in:]
        if case["labels"] is None:
            inside, outside = list(range(384)), []
        desc = {k2: v2 for k2, v2 in case.items()}
        x = destripe_input(case)
        tracer = StageTracer()
        try:
            y = destripe_call(case, x, case["labels"], tracer=tracer)
            pre, exp = destripe_expected(case, x, case["labels"], inside)
        except Exception as e:
            ctx.fail("destripe raised %r" % (e,), desc, {"kind": "exception"})
            return
        dist["destripe_labels"] += 1
        if outside or case["labels"] is None or case.get("no_version"):
            nontrivial.add(json.dumps(desc, sort_keys=True))
        # the order of the stages and the rows each receives
        mt = [(mtrace[i], mtrace[i + 1]) for i in range(0, len(mtrace), 2)]
        if sorted(c for c, _ in tracer.trace) == sorted(c for c, _ in mt):
            dist["destripe_trace_compared"] += 1
            if tracer.trace != mt:
                ctx.disagree("destripe stage trace (stage, rows): implementation %s, model %s" % (tracer.trace, mt),
                             desc)
        else:
            dist["destripe_trace_unobserved"] += 1
        scale = float(np.max(np.abs(pre)))
        if outside and np.max(np.abs(y[outside] - pre[outside])) > TOL * scale:
            ctx.fail("channels labelled outside the brain are not returned as produced by the temporal filter, ADC "
                     "re-alignment and interpolation steps (modified by the spatial filter?)", desc,
                     {"kind": "destripe_labels"})
        elif np.max(np.abs(y - exp)) > TOL * scale:
            ctx.fail("destripe output differs from: temporal filter, ADC re-alignment, interpolation, then the spatial "
                     "filter applied to exactly the channels with label != 3 (model's index vector), in this order",
                     desc, {"kind": "destripe_labels"})
        # k_filter=False: referencing leaves a zero median over the channels inside the brain (black box)
        if not case["k_filter"] and not (case.get("kk") or {}).get("operator") and len(inside) and \
                np.max(np.abs(np.median(y[inside], axis=0))) > TOL * scale:
            ctx.fail("destripe(k_filter=False): the median over the %d channels inside the brain is not zero"
                     % len(inside), desc, {"kind": "destripe_median"})
        # label-3 rows are not inputs of the spatial filter: change them, nothing else moves
        if outside and not any(l in (1, 2) for l in case["labels"]):
            x2 = x.copy()
            x2[outside] += np.random.default_rng(case["seed"] + 1).standard_normal((len(outside), case["ns"])) * 1e-4
            y2 = destripe_call(case, x2, case["labels"])
            if np.max(np.abs(y2[inside] - y[inside])) > TOL * scale:
                ctx.fail("data of a channel labelled outside the brain leaked into other channels", desc,
                         {"kind": "destripe_labels"})
        if len(samples) < 8 and outside:
            samples.append({"call": "destripe_lfp" if case["lfp"] else "destripe", "probe": case["gen"],
                            "k_filter": case["k_filter"], "n_outside": len(outside), "outside_first": outside[:5],
                            "stage_trace": tracer.trace, "max_abs_out": float(np.max(np.abs(y)))})

    for k, case in enumerate(dcases):
        try:
            one_destripe(k, case)
        except Exception as e:
            ctx.fail("destripe case could not be evaluated: %r" % (e,), dict(case), {"kind": "exception"})

    # ---- destripe (default k-filter, ntr_pad=60) with 50 / 60 / 61 channels inside the brain
    for n_inside in (50, 60, 61):
        lab = np.zeros(384, dtype=int)
        lab[n_inside:] = 3
        case = {"kind": "destripe_few_inside", "n_inside": n_inside}
        xx = np.random.default_rng(n_inside).standard_normal((384, 256)) * 1e-5
        try:
            h, nv = header_for("NP1")
            with warnings.catch_warnings():
                warnings.simplefilter("ignore")
                yy = V().destripe(xx.copy(), 30000, h=h, neuropixel_version=1, channel_labels=lab)
            if not isinstance(yy, np.ndarray) or yy.shape != xx.shape:
                ctx.fail("destripe changed the shape", case, {"kind": "kfilt_pad_gt_nx" if n_inside < 60 else "shape"})
        except Exception as e:
            ctx.fail("destripe raised %r with %d channels inside the brain" % (e, n_inside), case,
                     {"kind": "kfilt_pad_gt_nx" if n_inside < 60 else "exception"})
        dist["destripe_few_inside"] = dist.get("destripe_few_inside", 0) + 1

    # ---- kernel re-evaluation of a sample of the extracted model's outputs
    idx = list(range(len(inputs)))
    small = sorted(idx, key=lambda i: len(inputs[i]) + len(model[i]))
    pick = small[:30] + ctx.rng.sample(idx, min(len(idx), 40))
    pick = [i for i in dict.fromkeys(pick) if len(inputs[i]) + len(model[i]) < 1500]
    bad = common.coq_mismatches(PROP, HEADER, [common.flat_cases_term(i, inputs[i], model[i]) for i in pick], shard=40)
    for i in bad:
        ctx.disagree("kernel-evaluated model and extracted model differ", {"kind": "kernel", "input": inputs[i][:60]})
    ctx.coverage["model_evaluations_extracted"] = len(inputs)
    ctx.coverage["model_evaluations_kernel"] = len(pick)

    # ---- what happens to the caller's array (observed and reported; no C05 clause depends on it)
    obs = {}
    try:
        v = V()
        rgo = np.random.default_rng(5)
        for name, call in (
                ("agc", lambda a: v.agc(a, wl=2, si=1.0)),
                ("kfilt_lagc_no_collection", lambda a: v.kfilt(a, lagc=4)),
                ("kfilt_lagc_collection", lambda a: v.kfilt(a, lagc=4, collection=np.array([0, 1] * 15))),
                ("fk_lagc_no_collection", lambda a: v.fk(a, si=0.002, dx=1, vbounds=[2, 4], lagc=0.01)),
                ("car_collection", lambda a: v.car(a, collection=np.array([0, 1] * 15))),
                ("car_no_collection", lambda a: v.car(a)),
                ("destripe", lambda a: v.destripe(np.tile(a, (13, 8))[:384], 30000, neuropixel_version=1))):
            a = rgo.standard_normal((30, 16))
            a0 = a.copy()
            with warnings.catch_warnings():
                warnings.simplefilter("ignore")
                r = call(a)
            r0 = r[0] if isinstance(r, tuple) else r
            if not isinstance(r0, np.ndarray):
                raise BadReturn("%s returned %s" % (name, type(r0).__name__))
            obs[name] = {"argument_modified": bool(not np.array_equal(a, a0)),
                         "result_aliases_argument": bool(np.shares_memory(r0, a))}
        ai = np.array([[1, -2, 3], [4, 0, 6]])
        with warnings.catch_warnings():
            warnings.simplefilter("ignore")
            oi, gi = v.agc(ai.copy(), wl=2, si=1.0, epsilon=1 / 8)
        obs["agc_integer_input"] = {"output_dtype": str(oi.dtype),
                                    "product_is_input": bool(np.allclose(oi * gi, ai))}
    except Exception as e:
        obs["error"] = repr(e)
    ctx.coverage["observations_argument_mutation"] = obs
    for name in ("car_collection", "car_no_collection", "kfilt_lagc_collection", "destripe"):
        o = obs.get(name)
        if o and (o["argument_modified"] or o["result_aliases_argument"]):
            ctx.disagree("%s modifies the caller's array or returns a view of it (the model function is pure; only agc, "
                         "and kfilt / fk without a collection, are known to work in place)" % name,
                         {"kind": "mutation", "call": name, "observed": o})
    if "error" in obs:
        ctx.fail("probing the argument handling raised %s" % obs["error"], {"kind": "mutation"}, {"kind": "exception"})

    # ---- measurements (quantitative clauses)
    try:
        measure(ctx, model_delays(ex))
    except Exception as e:
        ctx.fail("measurement run raised %r" % (e,), {"kind": "measure"}, {"kind": "exception"})

    try:
        header_sequence(ctx, ex, dist)
    except Exception as e:
        ctx.fail("header sequence raised %r" % (e,), {"kind": "header_sequence"}, {"kind": "exception"})

    return common.finish(
        ctx, TRUSTED,
        rule="car: integer / half / quarter valued arrays with 1-5 channel groups of 1-7 rows (interleaved, unsorted, "
             "negative labels), all operators, malformed collections; agc: the four rational Hann windows (ns_win 1,3,5,7), "
             "several epsilon, dead rows; kfilt / fk with a collection for random and one-at-a-time settings, compared with "
             "the per-group call and the forwarded keyword records; adc_shifts tables for every probe generation; destripe "
             "/ destripe_lfp with 384-channel label vectors on NP1/NP2/NP2.4/NPultra headers, composed from the stage "
             "functions with the model's index vectors. Each case runs the real function and (where exact) the Q model; "
             "non-trivial = car with >= 2 groups, agc with a non-zero row and ns > 1, grouped filter with a result, "
             "destripe with at least one channel labelled 3; distinct by input",
        samples=samples, evaluations=len(inputs) + dist["filter_unobserved"], distinct_nontrivial=len(nontrivial),
        extra={"input_distribution": dist, "exhaustive": False},
        assumptions=["fourier.convolve = linear convolution (C18)", "fourier.fshift = exact fractional delay (C07)",
                     "interpolate_bad_channels (C15)", "scipy.signal.sosfiltfilt/butter"])


def replay(ctx, data):
    try:
        return _replay(ctx, data)
    except Exception as e:          # the recorded input makes the implementation raise / return garbage
        print("implementation could not be evaluated on the recorded input:", repr(e))
        return 1


def _replay(ctx, data):
    inp = data.get("input") or (data.get("correspondence_disagreements") or [{}])[0].get("input")
    if not inp:
        print(json.dumps(data, indent=1)[:3000])
        return 1
    kind = inp.get("kind")
    print("replaying", kind, json.dumps({k: v for k, v in inp.items() if k not in ("x", "labels")}, default=str)[:600])
    ex = common.Extracted(PROP)
    if kind == "car":
        y = impl_car(inp)
        bad = oracle_car(inp, y)
        m = ex.run_many([enc_car(inp)], nproc=1)[0]
        print("x =", xarr(inp).tolist(), "collection =", inp["coll"], "operator =", OPS[inp["op"]])
        print("implementation:", y if isinstance(y, str) else y.tolist())
        print("model:", m[:1], qpairs(m[1:]))
        print("property clauses failing:", bad)
        n0 = len(ctx.disagreements)
        if isinstance(y, str):
            ok = m == [0]
        else:
            compare_q(ctx, "car", m, list(y.ravel()), inp, tol=1e-3 if inp.get("dtype") == "f32" else TOL)
            ok = len(ctx.disagreements) == n0
        return 1 if (bad or not ok) else 0
    if kind == "agc":
        out, gain = impl_agc(inp)
        bad = oracle_agc(inp, out, gain)
        m = ex.run_many([enc_agc(inp)], nproc=1)[0]
        print("x =", xarr(inp).tolist())
        print("implementation out:", out.tolist(), "gain:", gain.tolist())
        print("model:", m[:1], qpairs(m[1:]))
        print("property clauses failing:", bad)
        n0 = len(ctx.disagreements)
        if m != [2]:
            compare_q(ctx, "agc", m, list(out.ravel()) + list(gain.ravel()), inp)
        return 1 if (bad or len(ctx.disagreements) > n0) else 0
    if kind == "filter":
        n0 = len(ctx.oracle_failures)
        obs = run_grouped_filter(ctx, inp)
        m = ex.run_many([enc_filter_case(inp)], nproc=1)[0]
        print("observed per-collection calls:", obs)
        print("model:", m)
        print("oracle failures:", [f["what"] for f in ctx.oracle_failures[n0:]])
        return 1 if (len(ctx.oracle_failures) > n0 or (isinstance(obs, list) and obs != m)) else 0
    if kind == "adc":
        obs = impl_adc(inp["ver"], inp["nc"])
        m = ex.run_many([[7, 2 if inp["ver"] == 24 else inp["ver"], inp["nc"]]], nproc=1)[0]
        print("implementation:", obs[:40], "\nmodel:", m[:40])
        return 1 if obs != m else 0
    if kind == "destripe":
        lab = inp["labels"]
        m, mt = ex.run_many([[3, 0] if lab is None else [3, len(lab)] + lab,
                             [8, 384, 0 if inp.get("no_version") else 1,
                              0 if lab is None else (2 if inp.get("labels_mode") == "detect" else 1)] + (lab or [])],
                            nproc=1)
        inside = m[1:1 + m[0]]
        outside = m[2 + m[0]:]
        if lab is None:
            inside, outside = list(range(384)), []
        tr = StageTracer()
        destripe_call(inp, destripe_input(inp), lab, tracer=tr)
        print("stage trace: implementation", tr.trace, "model", [(mt[i], mt[i + 1]) for i in range(0, len(mt), 2)])
        x = destripe_input(inp)
        y = destripe_call(inp, x, inp["labels"])
        pre, exp = destripe_expected(inp, x, inp["labels"], inside)
        scale = float(np.max(np.abs(pre)))
        d_out = float(np.max(np.abs(y[outside] - pre[outside]))) if outside else 0.0
        d_all = float(np.max(np.abs(y - exp)))
        print("outside channels:", outside[:20], "max change on them:", d_out, "max deviation from composition:", d_all)
        return 1 if max(d_out, d_all) > TOL * scale else 0
    if kind == "header_sequence":
        n0 = len(ctx.oracle_failures)
        header_sequence(ctx, ex, {})
        print(ctx.measurements.get("stripe_attenuation_after_header_edit_db"))
        print([f["what"] for f in ctx.oracle_failures[n0:]])
        return 1 if (len(ctx.oracle_failures) > n0 or ctx.disagreements) else 0
    if kind in ("kfilt_padding", "destripe_few_inside"):
        if kind == "kfilt_padding":
            xk = np.random.default_rng(0).standard_normal((inp["nx"], 12))
            try:
                if inp.get("fn") == "fk":
                    a = V().fk(xk.copy(), si=0.002, dx=1, vbounds=[2, 4], ntr_pad=inp["pad"], ntr_tap=0, lagc=None)
                else:
                    a = V().kfilt(xk.copy(), ntr_pad=inp["pad"], ntr_tap=inp.get("tap", 0), lagc=inp["lagc"])
                print("kfilt input shape", xk.shape, "output shape", a.shape)
                return 1 if a.shape != xk.shape else 0
            except Exception as e:
                print("kfilt raised", repr(e))
                return 1
        lab = np.zeros(384, dtype=int)
        lab[inp["n_inside"]:] = 3
        h, nv = header_for("NP1")
        try:
            yy = V().destripe(np.random.default_rng(1).standard_normal((384, 256)) * 1e-5, 30000, h=h,
                              neuropixel_version=1, channel_labels=lab)
            print("destripe ok", yy.shape)
            return 0
        except Exception as e:
            print("destripe raised", repr(e))
            return 1
    if kind == "measure":
        n0 = len(ctx.oracle_failures)
        measure(ctx, model_delays(ex))
        print(json.dumps(ctx.measurements, indent=1)[:4000])
        return 1 if len(ctx.oracle_failures) > n0 else 0
    print(json.dumps(data, indent=1)[:3000])
    return 1
