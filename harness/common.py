"""Shared machinery of the ibl-neuropixel proof checks.

One check = (1) proof obligations: build coq/<id>/Props.vo, collect Print
Assumptions per theorem; (2) correspondence: run /repo/src and the Coq model on
the same inputs; (3) property oracle evaluated directly on the implementation;
(4) decision (VIOLATION / KNOWN-FINDING / ok); (5) evidence file.
"""
import fcntl
import hashlib
import json
import os
import random
import re
import shutil
import subprocess
import sys
import tempfile
import time
from concurrent.futures import ThreadPoolExecutor
from pathlib import Path

VERIF = Path(__file__).resolve().parent.parent
COQ = VERIF / "coq"
REPO = Path(os.environ.get("IBLNPX_REPO", "/repo"))
EVID = Path(os.environ.get("IBLNPX_EVID", str(VERIF / "evidence")))   # redirected when a seeded change is being tested
REPLAYS = EVID / "replays"
KNOWN = VERIF / "known_findings.json"
# scratch for generated case files / extracted models: outside the -Q root, so that coqdep
# (which scans the whole root) never meets a directory that is being removed
GEN = VERIF / "work" / "gen"
BUILD = VERIF / "work" / "build"
GEN.mkdir(parents=True, exist_ok=True)
BUILD.mkdir(parents=True, exist_ok=True)
NCPU = max(2, (os.cpu_count() or 4))

FORBIDDEN = re.compile(
    r"\b(Admitted|admit|Axiom|Axioms|Parameter|Parameters|Conjecture|Conjectures|"
    r"Admit\s+Obligations|bypass_check|type-in-type|impredicative-set)\b|"
    r"Unset\s+Guard\s+Checking|Unset\s+Positivity\s+Checking|Unset\s+Universe\s+Checking")

# axioms the Coq standard library itself declares and that this development may
# inherit (through Flocq / Reals); each property whitelists the subset it uses.
STDLIB_AXIOMS = {
    "ClassicalDedekindReals.sig_forall_dec",
    "ClassicalDedekindReals.sig_not_dec",
    "FunctionalExtensionality.functional_extensionality_dep",
    "Classical_Prop.classic",
}


def sh(cmd, timeout=None, cwd=None, env=None):
    p = subprocess.run(cmd, shell=isinstance(cmd, str), cwd=cwd, env=env,
                       stdout=subprocess.PIPE, stderr=subprocess.STDOUT,
                       timeout=timeout, text=True)
    return p.returncode, p.stdout


# --------------------------------------------------------------------------
# Coq side
# --------------------------------------------------------------------------
class BuildLock:
    """Exclusive lock on coq/.build.<name>.lock.  'global' protects _CoqProject / Makefile
    regeneration (short); one lock per make target set serialises builds of the same files
    while builds of different properties run concurrently."""

    def __init__(self, name="global"):
        self.name = re.sub(r"[^A-Za-z0-9_.-]", "_", name)[:80]

    def __enter__(self):
        self.f = open(COQ / (".build.%s.lock" % self.name), "w")
        fcntl.flock(self.f, fcntl.LOCK_EX)
        return self

    def __exit__(self, *a):
        fcntl.flock(self.f, fcntl.LOCK_UN)
        self.f.close()


def gen_coqproject():
    """_CoqProject = -Q . IBL + every lib/*.v and C??/*.v (coqdep orders them)."""
    files = sorted(str(p.relative_to(COQ)) for p in list((COQ / "lib").glob("*.v")) +
                   [q for d in sorted(COQ.glob("C[0-9][0-9]")) for q in d.glob("*.v")])
    txt = "-Q . IBL\n" + "\n".join(files) + "\n"
    cp = COQ / "_CoqProject"
    if not cp.exists() or cp.read_text() != txt:
        cp.write_text(txt)
        return True
    return False


# memory ceiling for any single coqc started by a build (a runaway vm_compute / tactic must
# not take the machine down): address-space limit in kB
COQ_VMEM_KB = int(os.environ.get("IBLNPX_COQ_VMEM_KB", str(14 * 1024 * 1024)))


def coq_make(targets, timeout=3000):
    """Full .vo build of the given targets (and their dependencies)."""
    with BuildLock("global"):
        changed = gen_coqproject()
        if changed or not (COQ / "Makefile").exists():
            rc, out = sh("coq_makefile -f _CoqProject -o Makefile", cwd=COQ, timeout=120)
            if rc != 0:
                return False, out
    key = "all" if not targets else "_".join(sorted({t.split("/")[0] for t in targets}))
    with BuildLock(key):
        cmd = "ulimit -v %d; exec timeout %d make -j%d %s" % (
            COQ_VMEM_KB, timeout, NCPU, " ".join(targets))
        rc, out = sh(["bash", "-c", cmd], cwd=COQ, timeout=timeout + 30)
        return rc == 0, out


def scan_forbidden(subdirs):
    hits = []
    for sd in subdirs:
        for f in sorted((COQ / sd).glob("*.v")):
            txt = f.read_text()
            # strip comments (non-nested is enough for our sources; nested handled by loop)
            prev = None
            while prev != txt:
                prev = txt
                txt = re.sub(r"\(\*[^*(]*(?:\*(?!\))[^*(]*|\((?!\*)[^*(]*)*\*\)", " ", txt)
            for m in FORBIDDEN.finditer(txt):
                hits.append("%s: %s" % (f.relative_to(COQ), m.group(0)))
            if re.search(r"^\s*(Variable|Variables|Hypothesis|Hypotheses|Context)\b", txt, re.M):
                # allowed only inside sections: crude check — count of Section must be > 0
                if not re.search(r"^\s*Section\b", txt, re.M):
                    hits.append("%s: Variable/Hypothesis outside a section" % f.relative_to(COQ))
    return hits


def theorem_names(props_file):
    txt = Path(props_file).read_text()
    return re.findall(r"^\s*Theorem\s+([A-Za-z0-9_']+)", txt, re.M)


def print_assumptions(prop, module="Props", names=None, timeout=600):
    """Returns {theorem: [axiom names]} ([] = closed under the global context),
    or raises RuntimeError with the coqc output."""
    names = names or theorem_names(COQ / prop / (module + ".v"))
    gen = Path(tempfile.mkdtemp(prefix="assum_%s_" % prop, dir=GEN))
    try:
        f = gen / "A.v"
        lines = ["From IBL.%s Require Import %s." % (prop, module)]
        for n in names:
            lines.append('Goal True. idtac "@@THM %s". exact I. Qed.' % n)
            lines.append("Print Assumptions %s." % n)
        lines.append('Goal True. idtac "@@END". exact I. Qed.')
        f.write_text("\n".join(lines) + "\n")
        rc, out = sh(["bash", "-c", "ulimit -v %d; exec timeout %d coqc -Q %s IBL %s" % (
            COQ_VMEM_KB, timeout, COQ, f)], cwd=gen, timeout=timeout + 30)
        if rc != 0:
            raise RuntimeError(out)
        res = {}
        blocks = re.split(r"@@THM (\S+)\n", out)
        for i in range(1, len(blocks), 2):
            name, body = blocks[i], blocks[i + 1].split("@@END")[0]
            if "Closed under the global context" in body:
                res[name] = []
            else:
                # an entry is `name : type` or, for long names, `name` alone with `  : type` on the
                # next line; "Axioms:" is the header line, not a name
                res[name] = [a for a in re.findall(r"^([A-Za-z_][\w.']*)[ \t]*(?::|\n[ \t]+:)", body, re.M)
                             if a != "Axioms"]
        return res
    finally:
        shutil.rmtree(gen, ignore_errors=True)


def coq_run_file(prop, text, timeout=900, stack_unlimited=True):
    """Compile one generated .v file that prints with idtac / Eval; returns stdout."""
    GEN.mkdir(parents=True, exist_ok=True)
    gen = Path(tempfile.mkdtemp(prefix="run_%s_" % prop, dir=GEN))
    try:
        f = gen / "Cases.v"
        f.write_text(text)
        cmd = "ulimit -s unlimited 2>/dev/null; ulimit -v %d; timeout %d coqc -Q %s IBL %s" % (COQ_VMEM_KB, timeout, COQ, f)
        rc, out = sh(["bash", "-c", cmd], cwd=gen, timeout=timeout + 30)
        if rc != 0:
            raise RuntimeError("coqc failed (rc=%s):\n%s" % (rc, out[-4000:]))
        return out
    finally:
        shutil.rmtree(gen, ignore_errors=True)


def parse_coq_zlist(out):
    """Parse the '= [a; b; ...] : list Z' printed by Eval vm_compute."""
    m = re.search(r"=\s*(\[.*?\]|nil)\s*:\s*list", out, re.S)
    if not m:
        raise RuntimeError("cannot parse Coq output: " + out[-2000:])
    body = m.group(1)
    if body == "nil":
        return []
    return [int(x) for x in re.findall(r"-?\d+", body)]


def coq_mismatches(prop, header, case_terms, shard=300, fn="mismatches", timeout=900):
    """case_terms: list of Coq terms of the property's `case` record type, each
    carrying its own id.  Returns the list of ids the model disagrees on."""
    GEN.mkdir(parents=True, exist_ok=True)
    shards = [case_terms[i:i + shard] for i in range(0, len(case_terms), shard)]

    def one(terms):
        txt = header + "\nOpen Scope Z_scope.\nDefinition cases := [\n" + ";\n".join(terms) + \
            "\n].\nSet Printing Width 1000000.\nSet Printing Depth 1000000.\n" \
            "Eval vm_compute in %s cases.\n" % fn
        return parse_coq_zlist(coq_run_file(prop, txt, timeout=timeout))

    bad = []
    with ThreadPoolExecutor(max_workers=min(NCPU, 12)) as ex:
        for r in ex.map(one, shards):
            bad.extend(r)
    return bad


# ---- extracted model (volume path) ------------------------------------------
EXTRACT_V = """Require Extraction.
Require ExtrOcamlBasic.
From IBL.%(prop)s Require Import %(module)s.
Extraction "model_run.ml" %(fn)s.
"""


class Extracted:
    """OCaml extraction of coq/<prop>/<module>.v's `run : list Z -> list Z`
    (ExtrOcamlBasic only; Z kept as the extracted inductive), driven by
    harness/driver.ml.  Built on demand into work/build/<prop>/ and rebuilt
    whenever the compiled model is newer than the binary."""

    def __init__(self, prop, module="Run", fn="run"):
        self.prop, self.module, self.fn = prop, module, fn
        self.dir = BUILD / prop
        self.exe = self.dir / "run.exe"
        self.build()

    def build(self):
        vo = COQ / self.prop / (self.module + ".vo")
        if not vo.exists():
            ok, out = coq_make(["%s/%s.vo" % (self.prop, self.module)])
            if not ok:
                raise RuntimeError(out[-3000:])
        def fresh():
            return self.exe.exists() and self.exe.stat().st_mtime > vo.stat().st_mtime and \
                self.exe.stat().st_mtime > (VERIF / "harness" / "driver.ml").stat().st_mtime
        if fresh():
            return
        with BuildLock("extract_" + self.prop):
            if fresh():        # another process built it while this one waited for the lock
                return
            # build in a private directory and publish the binary with an atomic rename, so that a
            # concurrent check never executes (or sees) a half-linked run.exe
            self.dir.mkdir(parents=True, exist_ok=True)
            tmp = Path(tempfile.mkdtemp(prefix="x_", dir=self.dir))
            try:
                (tmp / "Extract.v").write_text(
                    EXTRACT_V % {"prop": self.prop, "module": self.module, "fn": self.fn})
                rc, out = sh(["timeout", "600", "coqc", "-Q", str(COQ), "IBL", "Extract.v"], cwd=tmp)
                if rc != 0:
                    raise RuntimeError("extraction failed:\n" + out[-3000:])
                shutil.copy(VERIF / "harness" / "driver.ml", tmp / "driver.ml")
                rc, out = sh("ocamlfind ocamlopt -O2 -w -a model_run.mli model_run.ml driver.ml -o run.exe "
                             "2>&1 || ocamlfind ocamlopt -w -a model_run.mli model_run.ml driver.ml -o run.exe",
                             cwd=tmp, timeout=900)
                if rc != 0 or not (tmp / "run.exe").exists():
                    raise RuntimeError("ocaml build failed:\n" + out[-3000:])
                for f in ("model_run.ml", "model_run.mli", "Extract.v"):
                    shutil.copy(tmp / f, self.dir / f)
                os.replace(tmp / "run.exe", self.exe)
            finally:
                shutil.rmtree(tmp, ignore_errors=True)

    def run_many(self, inputs, nproc=None, timeout=3000):
        """inputs: list of int lists -> list of int lists (same order)."""
        if not inputs:
            return []
        nproc = nproc or min(NCPU, max(1, len(inputs) // 200))
        chunks = [inputs[i::nproc] for i in range(nproc)]

        def one(chunk):
            txt = "\n".join(" ".join(str(int(x)) for x in inp) for inp in chunk) + "\n"
            p = subprocess.run(["bash", "-c", "ulimit -s unlimited 2>/dev/null; exec %s" % self.exe],
                               input=txt, stdout=subprocess.PIPE, stderr=subprocess.PIPE,
                               text=True, timeout=timeout)
            if p.returncode != 0:
                raise RuntimeError("extracted model failed: " + p.stderr[-2000:])
            lines = p.stdout.split("\n")[:len(chunk)]
            return [[int(x) for x in l.split()] for l in lines]

        with ThreadPoolExecutor(max_workers=nproc) as ex:
            outs = list(ex.map(one, chunks))
        res = [None] * len(inputs)
        for k, o in enumerate(outs):
            res[k::nproc] = o
        return res


def flat_cases_term(cid, inp, out):
    return "(%d, %s, %s)" % (cid, czlist(inp), czlist(out))


def correspondence(ctx, prop, header, inputs, impl_outputs, describe, n_kernel=60, shard=100,
                   engine="ocaml", module="Run"):
    """Compare the implementation's flat outputs with the model's, for all
    inputs.  engine='ocaml': the extracted model on everything, plus the same
    `run` evaluated by the kernel (vm_compute) on a sample of n_kernel cases
    (ties the extraction to the definitions the theorems are about).
    engine='coq': everything through vm_compute.  describe(i) -> json-able
    description of input i for the replay file.  Returns number compared."""
    idx = list(range(len(inputs)))
    if engine == "ocaml":
        model = Extracted(prop, module).run_many(inputs)
        for i in idx:
            if model[i] != impl_outputs[i]:
                k = next((j for j, (a, b) in enumerate(zip(model[i], impl_outputs[i])) if a != b),
                         min(len(model[i]), len(impl_outputs[i])))
                ctx.disagree("model and implementation differ at output position %d "
                             "(model %s, implementation %s)" % (
                                 k, model[i][k:k + 4], impl_outputs[i][k:k + 4]), describe(i))
        # smallest cases first for the kernel sample, plus a random few
        small = sorted(idx, key=lambda i: len(inputs[i]) + len(impl_outputs[i]))
        pick = small[:n_kernel // 2] + ctx.rng.sample(idx, min(len(idx), n_kernel // 2))
        pick = [i for i in dict.fromkeys(pick) if len(inputs[i]) + len(impl_outputs[i]) < 4000]
    else:
        pick = idx
    terms = [flat_cases_term(i, inputs[i], impl_outputs[i]) for i in pick]
    bad = coq_mismatches(prop, header, terms, shard=shard) if terms else []
    for i in bad:
        ctx.disagree("kernel-evaluated model and implementation differ", describe(i))
    ctx.coverage["model_evaluations_extracted"] = len(idx) if engine == "ocaml" else 0
    ctx.coverage["model_evaluations_kernel"] = len(pick)
    return len(idx)


# ---- tiny printers for Coq terms -----------------------------------------
def cz(n):
    n = int(n)
    return "(%d)" % n if n < 0 else "%d" % n


def clist(items):
    return "[" + "; ".join(items) + "]"


def czlist(xs):
    return clist([cz(x) for x in xs])


def copt(x, pr):
    return "None" if x is None else "(Some %s)" % pr(x)


def ctuple(xs):
    return "(" + ", ".join(xs) + ")"


def cbool(b):
    return "true" if b else "false"


# --------------------------------------------------------------------------
# Check context, decision, evidence
# --------------------------------------------------------------------------
class Ctx:
    def __init__(self, prop, tier, seed):
        self.prop, self.tier, self.seed = prop, tier, seed
        self.rng = random.Random(seed)
        self.t0 = time.time()
        self.oracle_failures = []     # concrete failing inputs (property predicate false on impl)
        self.disagreements = []       # model != implementation, no property failure shown (yet)
        self.broken_proofs = []       # theorem / build failures
        self.known_hits = []
        self.coverage = {}
        self.assumptions = []
        self.notes = []
        self.theorems = {}
        self.measurements = {}

    # a concrete input on which the property's own predicate fails on /repo
    def fail(self, what, case, tags=None):
        self.oracle_failures.append({"what": what, "input": case, "tags": tags or {}})

    def disagree(self, what, case, tags=None):
        self.disagreements.append({"what": what, "input": case, "tags": tags or {}})

    def thorough(self):
        return self.tier == "thorough"

    def elapsed(self):
        return time.time() - self.t0


def load_known(prop):
    """Committed known findings: known_findings.json plus the per-property file
    known_findings.d/<prop>.json (same format); never written at run time."""
    out = []
    for f in (KNOWN, VERIF / "known_findings.d" / ("%s.json" % prop)):
        if f.exists():
            data = json.loads(f.read_text())
            out += [k for k in data.get("findings", []) if k["property"] == prop]
    return out


def known_match(finding, tags):
    m = finding.get("match", {})
    return bool(m) and all(tags.get(k) == v for k, v in m.items())


def proof_obligations(ctx, subdirs=None, whitelist=(), modules=("Props",), make_targets=None,
                      timeout=3000, coqchk_admit=()):
    """Build the property's theorem file(s) and check their axioms."""
    prop = ctx.prop
    subdirs = subdirs or ["lib", prop]
    GEN.mkdir(parents=True, exist_ok=True)
    targets = make_targets or (["%s/%s.vo" % (prop, m) for m in modules] + ["%s/Run.vo" % prop])
    targets = [t for t in targets if (COQ / t[:-1]).exists()]   # .vo -> .v exists
    hits = scan_forbidden(subdirs)
    names_all = []
    for m in modules:
        names_all += theorem_names(COQ / prop / (m + ".v"))
    obligations = len(names_all)
    discharged = 0
    if hits:
        ctx.broken_proofs.append({"theorem": "*", "why": "forbidden construct: " + "; ".join(hits)})
    ok, out = coq_make(targets, timeout=timeout)
    if not ok:
        # which theorem broke?  report the tail of the log
        m = re.search(r'File "\./([^"]+)", line (\d+)', out)
        ctx.broken_proofs.append({"theorem": (m.group(1) + ":" + m.group(2)) if m else "build",
                                  "why": out[-1500:]})
    else:
        for m in modules:
            try:
                ass = print_assumptions(prop, m)
            except RuntimeError as e:
                ctx.broken_proofs.append({"theorem": m, "why": str(e)[-1500:]})
                continue
            for n, ax in ass.items():
                ctx.theorems[n] = ax if ax else "Closed under the global context"
                extra = [a for a in ax if a not in whitelist]
                if extra:
                    ctx.broken_proofs.append({"theorem": n, "why": "unlisted axioms: %s" % extra})
                elif not hits:
                    discharged += 1
    if ok and ctx.thorough() and not os.environ.get("IBLNPX_NO_COQCHK"):
        # independent re-check of the compiled theorems and everything they depend on
        for m in modules:
            try:
                # coqchk_admit: modules (exhaustive vm_compute sweeps, which coqchk would re-evaluate
                # without the VM for tens of minutes) that the independent checker takes as given;
                # they are still compiled and kernel-checked by coqc in the build
                admit = [x for a in coqchk_admit for x in ("-admit", a)]
                rc, out = sh(["timeout", "2400", "coqchk", "-silent", "-o", "-Q", ".", "IBL"] + admit +
                             ["IBL.%s.%s" % (prop, m)], cwd=COQ, timeout=2500)
            except subprocess.TimeoutExpired:
                rc, out = 124, "coqchk timed out"
            summ = out[out.find("CONTEXT SUMMARY"):] if "CONTEXT SUMMARY" in out else out[-1500:]
            ax = re.search(r"\* Axioms:(.*?)\n\s*\n\* Constants/Inductives relying on type-in-type:(.*?)\n", summ, re.S)
            ctx.coverage.setdefault("coqchk", {})[m] = {
                "rc": rc,
                "axioms": [a.strip() for a in ax.group(1).split("\n") if a.strip()] if ax else None,
                "type_in_type": ax.group(2).strip() if ax else None,
                "admitted_modules_not_rechecked": list(coqchk_admit)}
            if rc != 0:
                ctx.broken_proofs.append({"theorem": "coqchk %s.%s" % (prop, m), "why": out[-1500:]})
                discharged = 0
    ctx.coverage["obligations"] = obligations
    ctx.coverage["discharged"] = discharged
    ctx.coverage["checker_cmd"] = ("cd /verif/coq && coq_makefile -f _CoqProject -o Makefile && make %s"
                                   " ; Print Assumptions under each theorem" % " ".join(targets))
    return not ctx.broken_proofs


def finish(ctx, trusted_base, rule, samples, evaluations, distinct_nontrivial, extra=None,
           assumptions=None):
    """Decide, print VIOLATION / KNOWN-FINDING lines, write evidence, return exit code."""
    prop = ctx.prop
    known = load_known(prop)
    REPLAYS.mkdir(parents=True, exist_ok=True)
    violations = 0
    printed_known = set()
    lines = []

    def write_replay(kind, payload):
        h = hashlib.sha1(json.dumps(payload, sort_keys=True, default=str).encode()).hexdigest()[:10]
        p = REPLAYS / ("%s_%s_%s.json" % (prop, kind, h))
        p.write_text(json.dumps(payload, indent=1, default=str))
        return p

    unknown_failures = []
    for f in ctx.oracle_failures:
        hit = next((k for k in known if known_match(k, f["tags"])), None)
        if hit:
            if hit["id"] not in printed_known:
                printed_known.add(hit["id"])
                lines.append("KNOWN-FINDING: property=%s %s [%s]" % (prop, hit["what"], hit["id"]))
            ctx.known_hits.append(hit["id"])
        else:
            unknown_failures.append(f)
    if unknown_failures:
        f = unknown_failures[0]
        p = write_replay("fail", {"property": prop, "kind": "failing-input", "what": f["what"],
                                  "input": f["input"], "tags": f["tags"],
                                  "others": len(unknown_failures) - 1,
                                  "seed": ctx.seed, "tier": ctx.tier})
        lines.append("VIOLATION property=%s replay=%s" % (prop, p))
        violations += len(unknown_failures)
    else:
        # no concrete failing input: broken proof or correspondence still is a violation
        dis = [d for d in ctx.disagreements
               if not any(known_match(k, d["tags"]) for k in known)]
        if dis or ctx.broken_proofs:
            payload = {"property": prop, "kind": "unverified",
                       "broken_theorems": ctx.broken_proofs,
                       "correspondence_disagreements": dis[:5],
                       "n_disagreements": len(dis),
                       "note": "no input violating the property predicate was found on the "
                               "implementation; the theorem(s)/correspondence named here no "
                               "longer check, so the property is no longer shown to hold",
                       "seed": ctx.seed, "tier": ctx.tier}
            p = write_replay("unverified", payload)
            lines.append("VIOLATION property=%s replay=%s no-failing-input-found" % (prop, p))
            violations += 1
    cov = dict(ctx.coverage)
    cov.update({
        "evaluations": int(evaluations),
        "distinct_nontrivial": int(distinct_nontrivial),
        "rule": rule,
        "samples": samples[:8],
        "trusted_base": trusted_base,
        "theorems": ctx.theorems,
        "correspondence_disagreements": len(ctx.disagreements),
        "oracle_failures": len(ctx.oracle_failures),
        "known_findings_hit": sorted(set(ctx.known_hits)),
    })
    if ctx.measurements:
        cov["measurements_not_proofs"] = ctx.measurements
    if extra:
        cov.update(extra)
    cov.setdefault("obligations", 0)
    cov.setdefault("discharged", 0)
    cov.setdefault("checker_cmd", "coqc")
    ev = {"property_id": prop, "tier": ctx.tier, "seed": ctx.seed, "level": "proof",
          "coverage": cov, "assumptions": assumptions or [], "wall_s": round(ctx.elapsed(), 2),
          "violations": violations}
    EVID.mkdir(exist_ok=True)
    (EVID / ("%s.json" % prop)).write_text(json.dumps(ev, indent=1, default=str))
    for l in lines:
        print(l)
    print("%s %s: obligations %s/%s, %d evaluations, %d oracle failures, %d disagreements, %.1fs"
          % (prop, ctx.tier, cov["discharged"], cov["obligations"], evaluations,
             len(ctx.oracle_failures), len(ctx.disagreements), ctx.elapsed()))
    sys.stdout.flush()
    return 1 if violations else 0


def tmpdir(prefix="iblv_"):
    base = os.environ.get("TMPDIR", "/tmp")
    return Path(tempfile.mkdtemp(prefix=prefix, dir=base))
