"""C07 — Fourier time shift (ibldsp.fourier.fshift), parabolic_max, delay estimation.

Proofs in coq/C07 (abstract field with involution, twiddles as a homomorphism);
correspondence of the Q(i) instance of the same model against the real
fourier.fshift / utils.parabolic_max; executable consequences of the theorems
evaluated on the implementation (impulse basis, n in 2..2048)."""
import json
import math

import numpy as np
import scipy.fft
import scipy.signal

import common

PROP = "C07"
HEADER = "From Coq Require Import ZArith List.\nImport ListNotations.\nFrom IBL.C07 Require Import Run."
SC = 2 ** 48
OUTSC = 2 ** 40
TOL64 = 1e-9
TOL32 = 1e-4
TRUSTED = [
    "Coq 8.16.1 kernel + vm_compute (no native_compute); the 28 theorems of Props.v: Closed under the global context (enforced); "
    "C07_float_floor_half_is_exact (FloatProps.v, Flocq 4.1 binary64) uses the stdlib real-number axioms sig_forall_dec, "
    "sig_not_dec, functional_extensionality_dep, classic",
    "hand-written model coq/C07/Model.v of fourier.fshift (rfft -> phase product -> irfft C2R, per-trace tables, axis) "
    "and utils.parabolic_max, tied to /repo/src by this run's correspondence",
    "scipy.fft.rfft/irfft compute the DFT sums with a primitive n-th root of unity w (w(a+b)=w(a)w(b), w(n)=1, "
    "conj w(k)=w(-k)); irfft ignores the imaginary part of the DC and Nyquist bins: Section hypotheses / model, "
    "validated numerically by the Q(i) run with NumPy's own twiddles as data (rounded to 2^-48)",
    "np.exp(1j*np.angle(z)*s) is multiplicative in s, 1 at s=0, equals z at s=1 for |z|=1, and is 1 for z=1: "
    "hypotheses of the phase-level theorems",
    "float rounding of the FFT is not modelled: comparisons use 1e-9*scale (float64) and 1e-4*scale (float32)",
    "harness/pC07.py generators, canonicaliser and oracle; NumPy as arithmetic oracle (np.roll, cos/sin)",
    "C14's model of find_peak/pick_maximum (coq/C14/Model.v pick_peak) is imported for the peak trace of shift_waveform; "
    "np.nanmedian modelled as twice the median of integers (no NaN)",
    "scipy.signal.correlate(a, b, 'same')[i] = sum_l a[l + i - floor(N/2)] b[l] (model xcorr_same_at), compared exactly "
    "with SciPy on integer signals of every length 2..64 on each run",
    "extraction (Require Extraction, ExtrOcamlBasic only; Z, positive, Q kept inductive), harness/driver.ml, "
    "ocamlfind ocamlopt; a sample of the same cases is re-evaluated by the kernel (vm_compute)",
]

DT = {"f64": np.float64, "f32": np.float32}
FLOAT_THEOREMS = {"C07_float_floor_half_is_exact"}


# --------------------------------------------------------------------------
# validating proxies around the implementation: whatever the anchored functions do (raise any
# exception type, return None / a list / a wrong shape, rank or dtype / NaN, modify or alias their
# input, hang) surfaces as a `Bad` exception, which every call site turns into ctx.fail(input).
# --------------------------------------------------------------------------
class Bad(Exception):
    pass


IMPL_TIMEOUT_S = 60
_HUNG = set()          # functions that already timed out once: not called again in this run


def _guard(fn, *a, **k):
    import signal

    name = getattr(fn, "__name__", str(fn))
    if name in _HUNG:
        raise Bad("%s not called: an earlier call did not return within %d s" % (name, IMPL_TIMEOUT_S))

    def on_alarm(signum, frame):
        _HUNG.add(name)
        raise Bad("%s did not return within %d s" % (name, IMPL_TIMEOUT_S))
    use_alarm = hasattr(signal, "SIGALRM")
    old = None
    try:
        if use_alarm:
            try:
                old = signal.signal(signal.SIGALRM, on_alarm)
                signal.setitimer(signal.ITIMER_REAL, IMPL_TIMEOUT_S)
            except ValueError:      # not in the main thread
                use_alarm = False
        try:
            return fn(*a, **k)
        except Bad:
            raise
        except KeyboardInterrupt:
            raise
        except BaseException as e:  # noqa  (SystemExit, GeneratorExit, MemoryError, ... included)
            raise Bad("raised %s: %s" % (type(e).__name__, str(e)[:200]))
    finally:
        if use_alarm:
            signal.setitimer(signal.ITIMER_REAL, 0)
            if old is not None:
                signal.signal(signal.SIGALRM, old)


def _real_array(v, what, shape=None, dtype=None, like=None):
    if not isinstance(v, np.ndarray):
        raise Bad("%s is %s, not an ndarray" % (what, type(v).__name__))
    if v.dtype.kind not in "fiu":
        raise Bad("%s has dtype %s (real array expected)" % (what, v.dtype))
    if shape is not None and tuple(v.shape) != tuple(shape):
        raise Bad("%s has shape %s, expected %s" % (what, v.shape, tuple(shape)))
    if dtype is not None and v.dtype != dtype:
        raise Bad("%s has dtype %s, expected %s (dtype not preserved)" % (what, v.dtype, dtype))
    if like is not None and np.all(np.isfinite(like)) and not np.all(np.isfinite(v)):
        raise Bad("%s contains NaN/inf for a finite input" % what)
    return v


def _scalar(v, what):
    if isinstance(v, (bool, str, bytes, list, tuple, dict, type(None))):
        raise Bad("%s is %s, not a number" % (what, type(v).__name__))
    try:
        a = np.asarray(v)
    except Exception:  # noqa
        raise Bad("%s cannot be read as a number" % what)
    if a.shape != () or a.dtype.kind not in "fiu":
        raise Bad("%s is not a real scalar (shape %s, dtype %s)" % (what, a.shape, a.dtype))
    return float(a)


def _tuple(v, k, what):
    if not isinstance(v, tuple) or len(v) != k:
        raise Bad("%s returned %s, not a %d-tuple" % (what, type(v).__name__ if not isinstance(v, tuple)
                                                     else "a %d-tuple" % len(v), k))
    return v


def _untouched(args_before, args_after, result_arrays, what):
    for b, a in zip(args_before, args_after):
        if isinstance(a, np.ndarray):
            if a.shape != b.shape or a.dtype != b.dtype or not np.array_equal(a, b, equal_nan=True):
                raise Bad("%s modified its input array in place" % what)
            for r in result_arrays:
                if isinstance(r, np.ndarray) and r.size and a.size and np.may_share_memory(r, a):
                    raise Bad("%s returned an array that shares memory with its input (a view, not a new array)" % what)


class _Fourier:
    def __init__(self, mod):
        self._m = mod

    def fshift(self, w, s, **kw):
        if isinstance(w, np.ndarray) and not np.iscomplexobj(w):
            w0 = w.copy()
            y = _guard(self._m.fshift, w, s, **kw)
            _real_array(y, "fshift result", shape=w0.shape, dtype=w0.dtype, like=w0)
            _untouched([w0], [w], [y], "fshift")
            return y
        y = _guard(self._m.fshift, w, s, **kw)
        if not isinstance(y, np.ndarray) or not np.iscomplexobj(y) or (isinstance(w, np.ndarray) and y.shape != w.shape):
            raise Bad("fshift(complex, ns=) result is %s %s" % (type(y).__name__, getattr(y, "shape", None)))
        return y


class _Utils:
    def __init__(self, mod):
        self._m = mod

    def parabolic_max(self, x):
        x0 = x.copy()
        r = _tuple(_guard(self._m.parabolic_max, x), 2, "parabolic_max")
        if x0.ndim == 1:
            out = (_scalar(r[0], "parabolic_max index"), _scalar(r[1], "parabolic_max value"))
            if not (np.isfinite(out[0]) and np.isfinite(out[1])) and np.all(np.isfinite(x0)):
                raise Bad("parabolic_max returned NaN/inf for a finite input")
            _untouched([x0], [x], [], "parabolic_max")
            return out
        out = (_real_array(r[0], "parabolic_max indices", shape=x0.shape[:-1], like=x0),
               _real_array(r[1], "parabolic_max values", shape=x0.shape[:-1], like=x0))
        _untouched([x0], [x], [], "parabolic_max")
        return out


class _Waveforms:
    def __init__(self, mod):
        self._m = mod

    def wave_shift_corrmax(self, a, b):
        a0, b0 = a.copy(), b.copy()
        r = _tuple(_guard(self._m.wave_shift_corrmax, a, b), 2, "wave_shift_corrmax")
        out = (_real_array(r[0], "wave_shift_corrmax re-aligned copy", shape=b0.shape, like=b0),
               _scalar(r[1], "wave_shift_corrmax delay"))
        if not np.isfinite(out[1]):
            raise Bad("wave_shift_corrmax delay is %r" % out[1])
        _untouched([a0, b0], [a, b], [out[0]], "wave_shift_corrmax")
        return out

    def wave_shift_phase(self, a, b, fs):
        a0, b0 = a.copy(), b.copy()
        r = _tuple(_guard(self._m.wave_shift_phase, a, b, fs), 2, "wave_shift_phase")
        out = (_real_array(r[0], "wave_shift_phase re-aligned copy", shape=b0.shape, like=b0),
               _scalar(r[1], "wave_shift_phase delay"))
        _untouched([a0, b0], [a, b], [out[0]], "wave_shift_phase")
        return out

    def shift_waveform(self, wav):
        w0 = wav.copy()
        r = _tuple(_guard(self._m.shift_waveform, wav), 2, "shift_waveform")
        out = (_real_array(r[0], "shift_waveform output", shape=w0.shape, like=w0),
               _real_array(r[1], "shift_waveform applied shifts", shape=(w0.shape[0],), like=w0))
        _untouched([w0], [wav], [out[0]], "shift_waveform")
        return out

    def get_apf_from2spikes(self, a, b, fs):
        a0, b0 = a.copy(), b.copy()
        r = _tuple(_guard(self._m.get_apf_from2spikes, a, b, fs), 3, "get_apf_from2spikes")
        h = a0.shape[0] // 2 + 1
        out = tuple(_real_array(v, "get_apf_from2spikes output %d" % i, shape=(h,), like=a0) for i, v in enumerate(r))
        _untouched([a0, b0], [a, b], [], "get_apf_from2spikes")
        return out


def impl():
    """(fourier, utils, waveforms) validating proxies of the repository under test."""
    import ibldsp.fourier
    import ibldsp.utils
    import ibldsp.waveforms
    return _Fourier(ibldsp.fourier), _Utils(ibldsp.utils), _Waveforms(ibldsp.waveforms)


def tol_of(dt):
    return TOL64 if dt == "f64" else TOL32


# --------------------------------------------------------------------------
# implementation runners (every call wrapped by the callers)
# --------------------------------------------------------------------------
def impl_fshift(case):
    """case: {shape, axis, dtype, x (flat list), s (number or list)} -> ndarray."""
    fourier, utils, waveforms = impl()
    x = np.array(case["x"], dtype=DT[case["dtype"]]).reshape(case["shape"])
    s = case["s"]
    s = np.array(s, dtype=float) if isinstance(s, list) else s
    x0 = x.copy()
    y = fourier.fshift(x, s, axis=case["axis"])
    return x, x0, y


def phase_table(n, s):
    """The phase factors exactly as the source computes them (NumPy data)."""
    d = np.zeros(n)
    d[1] = 1
    return np.exp(1j * np.angle(scipy.fft.rfft(d)) * s)


def twiddles(n):
    k = np.arange(n)
    return np.exp(2j * np.pi * k / n)


def enc_complex(z):
    out = []
    for v in np.asarray(z).ravel():
        out += [int(round(float(v.real) * SC)), int(round(float(v.imag) * SC))]
    return out


def enc_model_input(case):
    shape = case["shape"]
    if len(shape) == 1:
        nr, nc, axis0 = 1, shape[0], 0
    else:
        nr, nc = shape
        axis0 = 1 if case["axis"] == 0 else 0
    n = nr if axis0 else nc
    ntr = nc if axis0 else nr
    s = case["s"]
    svec = list(s) if isinstance(s, list) else [s] * ntr
    inp = [1, axis0, nr, nc, len(svec)] + [int(v) for v in case["x"]] + enc_complex(twiddles(n))
    for si in svec:
        if n >= 2:
            inp += enc_complex(phase_table(n, si))
    return inp


# --------------------------------------------------------------------------
# generators
# --------------------------------------------------------------------------
def gen_signal(rng, n, kind):
    if kind == "impulse":
        x = [0] * n
        x[rng.randrange(n)] = rng.choice([1, -3, 100])
        return x
    if kind == "alt":       # pure Nyquist / DC mix
        return [5 + 7 * (-1) ** j for j in range(n)]
    return [rng.randrange(-100, 101) for _ in range(n)]


def gen_shift(rng, n, kind):
    if kind == "int":
        return rng.choice([0, 1, -1, n - 1, n, n + 1, -n, -n - 1, 2 * n + 3, rng.randrange(-n + 1, n),
                           rng.randrange(-5 * n, 5 * n)])
    r = rng.random()
    if r < 0.5:
        return rng.randrange(-8 * n + 1, 8 * n) / 8.0     # dyadic, in (-n, n)
    if r < 0.6:
        return rng.choice([-1, 1]) * 1e-6 * (1 + rng.random())      # tiny
    return round(rng.uniform(-n, n), 9)


def gen_model_cases(ctx):
    """Small n: everything goes through the Q(i) model."""
    rng = ctx.rng
    cases = []
    nmax = 20 if ctx.thorough() else 14
    reps = 6 if ctx.thorough() else 2
    for n in range(2, nmax + 1):
        for _ in range(reps):
            for skind in ("int", "frac"):
                for dt in ("f64", "f32"):
                    cases.append({"shape": [n], "axis": -1, "dtype": dt,
                                  "x": gen_signal(rng, n, rng.choice(["impulse", "rand", "rand", "alt"])),
                                  "s": gen_shift(rng, n, skind), "skind": skind})
        # 2-D, both axes, scalar and per-trace
        for axis in (0, 1, -1):
            for per_trace in (False, True):
                ntr = rng.choice([1, 2, 3])
                shape = [n, ntr] if axis == 0 else [ntr, n]
                x = []
                rows = [gen_signal(rng, n, rng.choice(["impulse", "rand"])) for _ in range(ntr)]
                if axis == 0:
                    x = [rows[c][r] for r in range(n) for c in range(ntr)]
                else:
                    x = [v for row in rows for v in row]
                skind = rng.choice(["int", "frac"])
                s = [gen_shift(rng, n, rng.choice(["int", "frac"])) for _ in range(ntr)] if per_trace \
                    else gen_shift(rng, n, skind)
                cases.append({"shape": shape, "axis": axis, "dtype": rng.choice(["f64", "f32"]), "x": x,
                              "s": s, "skind": "per_trace" if per_trace else skind})
    # malformed stream: the real code raises, the model refuses
    cases.append({"shape": [1], "axis": -1, "dtype": "f64", "x": [5], "s": 1, "skind": "malformed"})
    cases.append({"shape": [3, 1], "axis": -1, "dtype": "f64", "x": [5, 6, 7], "s": 0.5, "skind": "malformed"})
    cases.append({"shape": [2, 4], "axis": -1, "dtype": "f64", "x": list(range(8)), "s": [1.0, 2.0, 3.0],
                  "skind": "malformed"})
    cases.append({"shape": [2, 4], "axis": 0, "dtype": "f64", "x": list(range(8)), "s": [1.0, 2.0],
                  "skind": "malformed"})
    return cases


def n_values(ctx):
    if ctx.thorough():
        ns = list(range(2, 601)) + [1023, 1024, 1025, 2039, 2047, 2048]
    else:
        fixed = [2, 3, 4, 5, 6, 7, 8, 9, 16, 17, 31, 32, 64, 97, 121, 128, 255, 256, 257, 600, 1021, 1024, 2047, 2048]
        ns = sorted(set(fixed + [ctx.rng.randrange(10, 601) for _ in range(30)]))
    return ns


# --------------------------------------------------------------------------
# oracle: executable consequences on the implementation
# --------------------------------------------------------------------------
class Stats:
    def __init__(self):
        self.evals = 0
        self.nontrivial = set()
        self.dist = {}
        self.maxerr = {"f64": 0.0, "f32": 0.0}

    def count(self, key):
        self.dist[key] = self.dist.get(key, 0) + 1


def call(ctx, st, what, fn, desc, tags):
    """Run one implementation call; an exception is a property failure."""
    st.evals += 1
    try:
        return fn()
    except Exception as e:  # noqa
        ctx.fail("%s: %s" % (what, e) if isinstance(e, Bad) else "%s raised %r" % (what, e), desc,
                 dict(tags, kind="exception"))
        return None


def close(a, b, dt, scale):
    a, b = np.asarray(a), np.asarray(b)
    if a.shape != b.shape or not np.isrealobj(a):
        return False, float("inf")
    err = float(np.max(np.abs(a.astype(float) - b.astype(float)))) if a.size else 0.0
    if not np.isfinite(err):
        return False, float("inf")
    return err <= tol_of(dt) * scale, err / scale


def shape_ok(ctx, y, ref, desc):
    if not isinstance(y, np.ndarray) or y.shape != ref.shape or y.dtype != ref.dtype:
        ctx.fail("shape/dtype not preserved: got %s %s for input %s %s" % (
            getattr(y, "shape", None), getattr(y, "dtype", type(y)), ref.shape, ref.dtype), desc,
            {"clause": "shape_dtype"})
        return False
    return True


def oracle_n(ctx, st, n):
    """All clauses of the property on the impulse basis (+ a random integer
    signal) of length n, through the real fourier.fshift."""
    fourier, utils, waveforms = impl()
    rng = ctx.rng
    for dt in ("f64", "f32"):
        if dt == "f32" and n > 64 and rng.random() < 0.5 and not ctx.thorough():
            continue
        eye = np.eye(n, dtype=DT[dt])
        scale = 1.0
        # --- integer shifts = roll, zero shift = identity, on the whole impulse basis
        ints = [0, 1, -1, n, rng.randrange(-n + 1, n), rng.choice([n - 1, -n - 1, 3 * n + 2, -7 * n + 1])]
        for m in ints:
            for mk in ("pyint", "float", "npint"):
                if mk != "pyint" and m not in (0, ints[4]):
                    continue
                s = {"pyint": int(m), "float": float(m), "npint": np.int64(m)}[mk]
                desc = {"kind": "impulse_int", "n": n, "dtype": dt, "signal": "impulse basis (np.eye(n))", "shift": m, "shift_type": mk,
                        "axis": -1}
                before = eye.copy()
                y = call(ctx, st, "fshift", lambda: fourier.fshift(eye, s), desc, {"clause": "roll"})
                if y is None:
                    continue
                st.count("int_shift")
                if m % n != 0:
                    st.nontrivial.add((n, dt, "int", m))
                if not np.array_equal(eye, before):
                    ctx.fail("real input array modified by fshift", desc, {"clause": "input_untouched"})
                if not shape_ok(ctx, y, eye, desc):
                    continue
                ok, err = close(y, np.roll(eye, m, axis=-1), dt, scale)
                st.maxerr[dt] = max(st.maxerr[dt], err if np.isfinite(err) else 0.0)
                if not ok:
                    j = int(np.argmax(np.max(np.abs(y - np.roll(eye, m, axis=-1)), axis=1)))
                    ctx.fail("integer shift %d is not np.roll (impulse at %d, max err %.3g)" % (m, j, err),
                             dict(desc, impulse_at=j), {"clause": "roll" if m % n else "identity"})
        # --- along axis 0 with the impulse basis (columns are traces), per-trace integer shifts
        svec = np.array([rng.randrange(-n + 1, n) for _ in range(n)], dtype=float)
        for axis, sdt in ((0, "float64"), (1, "float64"), (1, "int64"), (0, "int32")):
            desc = {"kind": "impulse_per_trace", "n": n, "dtype": dt, "signal": "impulse basis (np.eye(n))",
                    "shift": "per-trace integers", "svec": svec.tolist(), "axis": axis, "shift_dtype": sdt}
            sarr = svec.astype(sdt)
            y = call(ctx, st, "fshift", lambda: fourier.fshift(eye, sarr, axis=axis), desc, {"clause": "per_trace"})
            if y is None:
                continue
            st.count("per_trace_axis%d_%s" % (axis, sdt))
            st.nontrivial.add((n, dt, "per_trace", axis, sdt))
            if axis == 1:
                exp = np.stack([np.roll(eye[i], int(svec[i])) for i in range(n)])
            else:
                exp = np.stack([np.roll(eye[:, i], int(svec[i])) for i in range(n)], axis=1)
            if not shape_ok(ctx, y, eye, desc):
                continue
            ok, err = close(y, exp, dt, scale)
            st.maxerr[dt] = max(st.maxerr[dt], err if np.isfinite(err) else 0.0)
            if not ok:
                ctx.fail("per-trace integer shifts along axis %d are not per-trace rolls (max err %.3g)" % (axis, err),
                         desc, {"clause": "per_trace"})
        # --- scalar shift along axis 0
        m = rng.randrange(-n + 1, n)
        desc = {"kind": "impulse_int", "n": n, "dtype": dt, "signal": "impulse basis (np.eye(n))", "shift": m,
                "shift_type": "pyint", "axis": 0}
        y = call(ctx, st, "fshift", lambda: fourier.fshift(eye, m, axis=0), desc, {"clause": "axis"})
        if y is not None:
            st.count("scalar_axis0")
            ok, err = close(y, np.roll(eye, m, axis=0), dt, scale)
            if shape_ok(ctx, y, eye, desc) and not ok:
                ctx.fail("scalar shift along axis 0 is not np.roll(axis=0) (max err %.3g)" % err, desc,
                         {"clause": "axis"})
        # --- composition on the impulse basis
        s1 = rng.randrange(-8 * n + 1, 8 * n) / 8.0
        s2 = rng.randrange(-8 * n + 1, 8 * n) / 8.0
        m2 = float(rng.randrange(-n + 1, n))
        for (a, b, kind) in ((s1, m2, "frac+int"), (m2, s1, "int+frac"), (s1, s2, "frac+frac")):
            desc = {"kind": "compose", "n": n, "dtype": dt, "signal": "impulse basis (np.eye(n))", "s": a, "t": b,
                    "axis": -1}
            y = call(ctx, st, "fshift∘fshift",
                     lambda: (fourier.fshift(fourier.fshift(eye, a), b), fourier.fshift(eye, a + b)),
                     desc, {"clause": "compose"})
            if y is None:
                continue
            st.count("compose_" + kind)
            st.nontrivial.add((n, dt, "compose", kind))
            two, one = y
            if not (shape_ok(ctx, two, eye, desc) and shape_ok(ctx, one, eye, desc)):
                continue
            ok, err = close(two, one, dt, scale)
            nyq = (n % 2 == 0) and (a != math.floor(a)) and (b != math.floor(b))
            if nyq:
                # the exact caveat (theorem C07_compose_nyquist_defect): the difference is
                # X_{n/2} (cos(pi a) cos(pi b) - cos(pi (a+b))) (-1)^j / n; X_{n/2} of impulse i is (-1)^i
                jj = np.arange(n)
                dfc = (math.cos(math.pi * a) * math.cos(math.pi * b) - math.cos(math.pi * (a + b))) / n
                pred = one.astype(float) + dfc * ((-1.0) ** jj)[None, :] * ((-1.0) ** jj)[:, None]
                okp, errp = close(two, pred, dt, scale)
                if not okp:
                    ctx.fail("composition of fractional shifts (even n) differs from the proved Nyquist-defect "
                             "formula (max err %.3g)" % errp, desc, {"clause": "compose_defect_formula"})
                elif not ok:
                    ctx.fail("fshift(fshift(x,s),t) != fshift(x,s+t): even n, both shifts non-integer, signal with "
                             "Nyquist content (difference %.3g = proved defect)" % err, desc,
                             {"clause": "compose", "parity": "even", "shifts": "both_fractional",
                              "nyquist_content": True})
            elif not ok:
                ctx.fail("successive shifts do not add up (%s, max err %.3g)" % (kind, err), desc,
                         {"clause": "compose", "parity": "even" if n % 2 == 0 else "odd", "shifts": kind,
                          "nyquist_content": True})
        # --- band-limited trigonometric polynomial: fractional shift = analytic delay
        kmax = (n - 1) // 2
        if kmax >= 1:
            nh = min(kmax, 6)
            ks = sorted(rng.sample(range(1, kmax + 1), nh))
            ak = [rng.randrange(-9, 10) for _ in ks]
            bk = [rng.randrange(-9, 10) for _ in ks]
            dc = rng.randrange(-5, 6)

            def trig(t):
                return dc + sum(a * np.cos(2 * np.pi * k * t / n) + b * np.sin(2 * np.pi * k * t / n)
                                for k, a, b in zip(ks, ak, bk))
            t = np.arange(n, dtype=float)
            x = trig(t).astype(DT[dt])
            sc = max(1.0, float(np.max(np.abs(x))))
            for s in (s1, 0.5, round(rng.uniform(-n, n), 9), rng.choice([-1, 1]) * 1e-6 * (1 + rng.random())):
                desc = {"kind": "trig", "n": n, "dtype": dt, "signal": "trig polynomial", "harmonics": ks, "a": ak, "b": bk,
                        "dc": dc, "shift": s}
                y = call(ctx, st, "fshift", lambda: fourier.fshift(x, s), desc, {"clause": "fractional"})
                if y is None:
                    continue
                st.count("fractional_bandlimited")
                st.nontrivial.add((n, dt, "fractional", s))
                if not shape_ok(ctx, y, x, desc):
                    continue
                ok, err = close(y, trig(t - s), dt, sc)
                st.maxerr[dt] = max(st.maxerr[dt], err if np.isfinite(err) else 0.0)
                if not ok:
                    ctx.fail("fractional shift of a band-limited signal is not the analytic delay (max err %.3g)"
                             % err, desc, {"clause": "fractional"})
                # compose is exact here (no Nyquist content)
                y2 = call(ctx, st, "fshift", lambda: fourier.fshift(y, 0.375), desc, {"clause": "compose"})
                if y2 is not None and shape_ok(ctx, y2, x, desc):
                    ok, err = close(y2, trig(t - s - 0.375), dt, sc)
                    if not ok:
                        ctx.fail("successive fractional shifts of a band-limited signal do not add up "
                                 "(max err %.3g)" % err, desc,
                                 {"clause": "compose", "shifts": "both_fractional", "nyquist_content": False})
        # --- 3-D arrays (waveform stacks): scalar and per-trace shifts along the last and the middle axis
        if n <= 64 or ctx.thorough():
            X3 = np.array([rng.randrange(-100, 101) for _ in range(6 * n)], dtype=DT[dt]).reshape(2, 3, n)
            sv = np.array([gen_shift(rng, n, rng.choice(["int", "frac"])) for _ in range(6)], dtype=float)
            for axis, arr in ((-1, X3), (1, np.ascontiguousarray(np.swapaxes(X3, 1, 2)))):
                for svec in (float(sv[0]), sv):
                    desc = {"kind": "nd3", "n": n, "dtype": dt, "signal": "random integers, 3-D", "shape": list(arr.shape),
                            "axis": axis, "shift": np.asarray(svec).tolist(), "x": arr.ravel().tolist()}
                    y = call(ctx, st, "fshift", lambda: fourier.fshift(arr, svec, axis=axis), desc,
                             {"clause": "per_trace"})
                    if y is None or not shape_ok(ctx, y, arr, desc):
                        continue
                    st.count("nd3_axis%d_%s" % (axis, "vec" if np.ndim(svec) else "scalar"))
                    st.nontrivial.add((n, dt, "3d", axis, np.ndim(svec)))
                    sl = np.broadcast_to(np.asarray(svec, dtype=float).reshape(2, 3) if np.ndim(svec) else svec, (2, 3))
                    yy = y if axis == -1 else np.swapaxes(y, 1, 2)
                    ref = call(ctx, st, "fshift", lambda: np.stack([np.stack(
                        [fourier.fshift(X3[a, b], float(sl[a, b])) for b in range(3)]) for a in range(2)]),
                        desc, {"clause": "per_trace"})
                    if ref is None:
                        continue
                    ok, err = close(yy, ref, dt, 100.0)
                    if not ok:
                        ctx.fail("3-D array: traces are not shifted independently with their own shift "
                                 "(axis %d, max err %.3g)" % (axis, err), desc, {"clause": "per_trace"})
        # --- frequency-domain entry point: fshift(rfft(x), s, ns=n) then irfft == fshift(x, s)
        if dt == "f64":
            xr = np.array([rng.randrange(-100, 101) for _ in range(n)], dtype=float)
            desc = {"kind": "complex_entry", "n": n, "dtype": dt, "signal": "random integers", "x": xr.tolist(),
                    "shift": s1}
            r = call(ctx, st, "fshift(complex, ns=)",
                     lambda: (scipy.fft.irfft(fourier.fshift(scipy.fft.rfft(xr), s1, ns=n), n),
                              fourier.fshift(xr, s1)), desc, {"clause": "complex_entry"})
            if r is not None:
                st.count("complex_entry")
                ok, err = close(r[0], r[1], dt, 100.0) if shape_ok(ctx, r[1], xr, desc) else (True, 0)
                if not ok:
                    ctx.fail("frequency-domain entry (ns=) differs from the time-domain shift (max err %.3g)" % err,
                             desc, {"clause": "complex_entry"})


def oracle_n_light(ctx, st, n):
    """Cheaper pass used for the lengths not given the whole impulse basis: 8 impulses + a
    random integer signal as the traces of one 2-D call; integer shifts vs np.roll,
    identity, per-trace shifts, composition with an integer shift."""
    fourier, utils, waveforms = impl()
    rng = ctx.rng
    dt = rng.choice(["f64", "f64", "f32"])
    pos = sorted({0, 1, n // 2, n - 1} | {rng.randrange(n) for _ in range(4)})
    X = np.zeros((len(pos) + 1, n), dtype=DT[dt])
    for i, q in enumerate(pos):
        X[i, q] = 1
    X[-1] = [rng.randrange(-100, 101) for _ in range(n)]
    before = X.copy()
    for m in (0, rng.randrange(-n + 1, n), rng.choice([n, -n - 1, 3 * n + 2, 1, -1])):
        desc = {"kind": "light", "n": n, "dtype": dt, "impulses_at": pos, "last_row": X[-1].tolist(), "shift": m}
        y = call(ctx, st, "fshift", lambda: fourier.fshift(X, m), desc, {"clause": "roll"})
        if y is None or not shape_ok(ctx, y, X, desc):
            continue
        st.count("light_int_shift")
        if m % n:
            st.nontrivial.add((n, dt, "int", m))
        ok, err = close(y, np.roll(X, m, axis=-1), dt, 100.0)
        if not ok:
            ctx.fail("integer shift %d is not np.roll (max err %.3g)" % (m, err), desc,
                     {"clause": "roll" if m % n else "identity"})
    if not np.array_equal(X, before):
        ctx.fail("real input array modified by fshift", {"kind": "light", "n": n, "dtype": dt},
                 {"clause": "input_untouched"})
    sv = np.array([rng.randrange(-n + 1, n) for _ in range(X.shape[0])], dtype=float)
    s1 = round(rng.uniform(-n, n), 9)
    desc = {"kind": "light", "n": n, "dtype": dt, "impulses_at": pos, "last_row": X[-1].tolist(),
            "svec": sv.tolist(), "s": s1}
    r = call(ctx, st, "fshift", lambda: (fourier.fshift(X, sv), fourier.fshift(fourier.fshift(X, s1), sv),
                                         fourier.fshift(X, sv + s1)), desc, {"clause": "per_trace"})
    if r is not None and all(shape_ok(ctx, v, X, desc) for v in r):
        st.count("light_per_trace")
        st.nontrivial.add((n, dt, "light_per_trace"))
        exp = np.stack([np.roll(X[i], int(sv[i])) for i in range(X.shape[0])])
        ok, err = close(r[0], exp, dt, 100.0)
        if not ok:
            ctx.fail("per-trace integer shifts are not per-trace rolls (max err %.3g)" % err, desc,
                     {"clause": "per_trace"})
        ok, err = close(r[1], r[2], dt, 100.0)
        if not ok:
            ctx.fail("a fractional shift followed by per-trace integer shifts does not add up (max err %.3g)" % err,
                     desc, {"clause": "compose", "shifts": "frac+int", "nyquist_content": True,
                            "parity": "even" if n % 2 == 0 else "odd"})


# --------------------------------------------------------------------------
# model correspondence (Q(i) instance, small n)
# --------------------------------------------------------------------------
def model_correspondence(ctx, st, cases):
    inputs, impl = [], []
    keep = []
    malformed = []
    for c in cases:
        desc = dict({k: c[k] for k in ("shape", "axis", "dtype", "x", "s")}, kind="model")
        st.evals += 1
        try:
            x, x0, y = impl_fshift(c)
        except Exception as e:  # noqa
            if c["skind"] == "malformed":
                st.count("model_malformed_refused")
                malformed.append((c, enc_model_input(c)))
            else:
                ctx.fail("fshift raised %r" % (e,), desc, {"kind": "exception"})
            continue
        if c["skind"] == "malformed":
            ctx.disagree("fshift accepts an input the model refuses (n < 2 or wrong number of shifts)", desc)
            continue
        if not np.array_equal(x, x0):
            ctx.fail("real input array modified by fshift", desc, {"clause": "input_untouched"})
        if list(y.shape) != list(c["shape"]) or y.dtype != DT[c["dtype"]]:
            ctx.fail("shape/dtype not preserved: %s %s" % (y.shape, y.dtype), desc, {"clause": "shape_dtype"})
            continue
        inputs.append(enc_model_input(c))
        impl.append(np.asarray(y, dtype=float).ravel())
        keep.append(c)
        st.count("model_%s_%dd_%s" % (c["skind"], len(c["shape"]), c["dtype"]))
        nontriv = isinstance(c["s"], list) or (c["s"] % c["shape"][0 if c["axis"] == 0 else -1] != 0)
        if nontriv:
            st.nontrivial.add(("model", tuple(c["shape"]), c["axis"], c["dtype"], json.dumps(c["s"]), tuple(c["x"])))
    ex = common.Extracted(PROP, "Run")
    outs = ex.run_many(inputs, nproc=4)
    for (c, inp), o in zip(malformed, ex.run_many([m[1] for m in malformed], nproc=1)):
        if o != [0]:
            ctx.disagree("model accepts an input on which fshift raises", {k: c[k] for k in ("shape", "axis", "x", "s")})
    for c, o, y in zip(keep, outs, impl):
        desc = dict({k: c[k] for k in ("shape", "axis", "dtype", "x", "s")}, kind="model")
        if not o or o[0] != 1 or len(o) != 1 + y.size:
            ctx.disagree("model refuses an input the implementation accepts (model output %s)" % o[:3], desc)
            continue
        m = np.array(o[1:], dtype=float) / OUTSC
        scale = max(1.0, float(np.max(np.abs(c["x"]))))
        err = float(np.max(np.abs(m - y))) / scale
        st.maxerr["model_" + c["dtype"]] = max(st.maxerr.get("model_" + c["dtype"], 0.0), err)
        if err > tol_of(c["dtype"]):
            k = int(np.argmax(np.abs(m - y)))
            ctx.disagree("model and implementation differ at flat position %d (model %.12g, implementation %.12g)"
                         % (k, m[k], y[k]), desc)
    # kernel: the same `run`, evaluated by vm_compute, must reproduce the extracted model's integers exactly
    order = sorted(range(len(inputs)), key=lambda i: len(inputs[i]))[: (16 if ctx.thorough() else 8)]
    terms = [common.flat_cases_term(i, inputs[i], outs[i]) for i in order]
    bad = common.coq_mismatches(PROP, HEADER, terms, shard=4) if terms else []
    for i in bad:
        ctx.disagree("kernel-evaluated model differs from the extracted model", {"case": keep[i]})
    ctx.coverage["model_evaluations_extracted"] = len(inputs)
    ctx.coverage["model_evaluations_kernel"] = len(terms)
    return keep


# --------------------------------------------------------------------------
# parabolic_max
# --------------------------------------------------------------------------
PARAB_AMPS = (1e-12, 1e-6, 2e-5, 1e-4, 80.0, 1e6, 1e12)
DELAY_AMPS = (1e-6, 2e-5, 1e-4, 1.0, 80.0, 1e6)


def gen_parab(ctx):
    rng = ctx.rng
    out = []
    for ns in (1, 2, 3, 4, 5, 8, 33):
        for _ in range(24 if ctx.thorough() else 10):
            kind = rng.choice(["rand", "rand", "ties", "mono_up", "mono_down", "flat", "peak", "peak", "peak"])
            if kind == "rand":
                x = [rng.randrange(-50, 51) for _ in range(ns)]
            elif kind == "ties":
                x = [rng.randrange(0, 3) for _ in range(ns)]
            elif kind == "mono_up":
                x = sorted(rng.randrange(-50, 51) for _ in range(ns))
            elif kind == "mono_down":
                x = sorted((rng.randrange(-50, 51) for _ in range(ns)), reverse=True)
            elif kind == "flat":
                x = [7] * ns
            else:
                c = rng.randrange(ns)
                x = [100 - 3 * (j - c) ** 2 + rng.randrange(0, 2) for j in range(ns)]
            out.append(x)
    return out


def parab_check(ctx, st):
    fourier, utils, waveforms = impl()
    xs = gen_parab(ctx)
    inputs = [[2, len(x)] + x for x in xs]
    ex = common.Extracted(PROP, "Run")
    outs = ex.run_many(inputs, nproc=1)
    rows_by_len = {}
    for x, o in zip(xs, outs):
        desc = {"kind": "parab", "x": x}
        st.evals += 1
        try:
            ip, mx = utils.parabolic_max(np.array(x, dtype=float))
        except Exception as e:  # noqa
            ctx.fail("parabolic_max raised %r" % (e,), desc, {"kind": "exception", "fn": "parabolic_max"})
            continue
        if len(o) != 6 or o[0] != 1:
            ctx.disagree("parabolic_max model refuses", desc)
            continue
        edge, mip, mmx = o[1], o[2] / o[3], o[4] / o[5]
        st.count("parabolic_edge" if edge else "parabolic_interior")
        if not edge:
            st.nontrivial.add(("parab", tuple(x)))
        if abs(float(ip) - mip) > 1e-9 * max(1.0, abs(mip)) or abs(float(mx) - mmx) > 1e-9 * max(1.0, abs(mmx)):
            ctx.disagree("parabolic_max: model (%r, %r) != implementation (%r, %r)" % (mip, mmx, float(ip), float(mx)),
                         desc)
        # oracle: the edge rule, and the interior result is the vertex of the parabola through the 3 samples
        im = int(np.argmax(x))
        if im == 0 or im == len(x) - 1:
            if float(ip) != im or float(mx) != x[im]:
                ctx.fail("parabolic_max edge rule: expected (%d, %d), got (%r, %r)" % (im, x[im], ip, mx), desc,
                         {"clause": "parabola_edge"})
        else:
            a, b, c = x[im - 1], x[im], x[im + 1]
            al, be = (a - 2 * b + c) / 2.0, (c - a) / 2.0
            if al != 0:
                v = -be / (2 * al)
                if abs(float(ip) - (im + v)) > 1e-9 or abs(float(mx) - (b - be * be / (4 * al))) > 1e-9 * max(1, abs(b)):
                    ctx.fail("parabolic_max is not the vertex of the parabola through the three samples", desc,
                             {"clause": "parabola_vertex"})
        # scale invariance (theorem C07_parabolic_max_scale_invariant): same index, value times c
        for camp in PARAB_AMPS:
            st.evals += 1
            try:
                ipc, mxc = utils.parabolic_max(np.array(x, dtype=float) * camp)
            except Exception as e:  # noqa
                ctx.fail("parabolic_max raised %r" % (e,), dict(desc, amplitude=camp), {"kind": "exception"})
                continue
            st.count("parabolic_scaled")
            if abs(float(ipc) - mip) > 1e-9 * max(1.0, abs(mip)) or abs(float(mxc) / camp - mmx) > 1e-9 * max(1.0, abs(mmx)):
                ctx.fail("parabolic_max(c*x) with c=%g gives (%r, %r): not (same index %r, c*value %r)"
                         % (camp, float(ipc), float(mxc), mip, mmx * camp), dict(desc, amplitude=camp),
                         {"clause": "parabola_scale"})
        rows_by_len.setdefault(len(x), []).append((x, float(ip), float(mx)))
    # 2-D branch: row-wise the same as the 1-D branch
    for ns, rows in rows_by_len.items():
        if ns < 2 or len(rows) < 2:
            continue
        arr = np.array([r[0] for r in rows], dtype=float)
        st.evals += 1
        try:
            ip2, mx2 = utils.parabolic_max(arr)
        except Exception as e:  # noqa
            ctx.fail("parabolic_max (2-D) raised %r" % (e,), {"x": arr.tolist()}, {"kind": "exception"})
            continue
        exp_ip = np.array([r[1] for r in rows])
        exp_mx = np.array([r[2] for r in rows])
        st.count("parabolic_2d")
        if not (np.allclose(ip2, exp_ip, rtol=0, atol=1e-9) and np.allclose(mx2, exp_mx, rtol=1e-9, atol=1e-9)):
            ctx.fail("parabolic_max on a 2-D array differs row-wise from the 1-D result", {"kind": "parab", "x": arr.tolist()},
                     {"clause": "parabola_2d"})
        # the model's 2-D branch (Run op 8 = parabolic_max_rows)
        o8 = ex.run_many([[8, arr.shape[0], arr.shape[1]] + [int(v) for v in arr.ravel()]], nproc=1)[0]
        mrows = [o8[6 * k: 6 * k + 6] for k in range(arr.shape[0])]
        if len(o8) != 6 * arr.shape[0] or any(r[0] != 1 for r in mrows) or \
                not np.allclose(ip2, [r[2] / r[3] for r in mrows], rtol=0, atol=1e-9) or \
                not np.allclose(mx2, [r[4] / r[5] for r in mrows], rtol=1e-9, atol=1e-9):
            ctx.disagree("parabolic_max on a 2-D array differs from the model's parabolic_max_rows",
                         {"kind": "parab", "x": arr.tolist()})
        # representation: float32 / integer / Fortran-ordered input give the same answer
        for nm, arr2 in (("float32", arr.astype(np.float32)), ("int64", arr.astype(np.int64)),
                         ("fortran", np.asfortranarray(arr)), ("row0_int32_1d", arr[0].astype(np.int32))):
            st.evals += 1
            try:
                ipv, mxv = utils.parabolic_max(arr2)
            except Exception as e:  # noqa
                ctx.fail("parabolic_max (%s input): %s" % (nm, e), {"kind": "parab", "x": arr2.tolist()},
                         {"kind": "exception"})
                continue
            st.count("parabolic_dtype_" + nm)
            eip, emx = (exp_ip[0], exp_mx[0]) if arr2.ndim == 1 else (exp_ip, exp_mx)
            if not (np.allclose(ipv, eip, rtol=0, atol=1e-5) and np.allclose(mxv, emx, rtol=1e-5, atol=1e-5)):
                ctx.fail("parabolic_max on %s input differs from the float64 result" % nm,
                         {"kind": "parab", "x": arr2.tolist()}, {"clause": "parabola_2d"})
    # exact parabola with a fractional vertex
    for _ in range(40):
        ns = ctx.rng.randrange(3, 40)
        v = ctx.rng.randrange(8, 8 * (ns - 1)) / 8.0
        if abs(v - round(v)) == 0.5:
            v += 0.125
        A, B = ctx.rng.randrange(1, 50), ctx.rng.randrange(1, 9)
        x = A - B * (np.arange(ns) - v) ** 2
        st.evals += 1
        try:
            ip, mx = utils.parabolic_max(x)
        except Exception as e:  # noqa
            ctx.fail("parabolic_max raised %r" % (e,), {"x": x.tolist()}, {"kind": "exception"})
            continue
        im = int(np.argmax(x))
        st.count("parabolic_exact")
        if im not in (0, ns - 1) and (abs(float(ip) - v) > 1e-9 or abs(float(mx) - A) > 1e-9 * A):
            ctx.fail("parabolic_max of an exact parabola does not return its vertex (%r, %r) vs (%r, %r)"
                     % (float(ip), float(mx), v, A), {"kind": "parab", "x": x.tolist(), "vertex": v}, {"clause": "parabola_vertex"})


# --------------------------------------------------------------------------
# delay estimation: measured, not proved
# --------------------------------------------------------------------------
def ricker(points, a):
    A = 2 / (np.sqrt(3 * a) * (np.pi ** 0.25))
    vec = np.arange(0, points) - (points - 1.0) / 2
    return A * (1 - vec ** 2 / a ** 2) * np.exp(-vec ** 2 / (2 * a ** 2))


def measure_delay(ctx, st):
    fourier, utils, waveforms = impl()
    worst, resid = 0.0, 0.0
    for (pts, a) in ((121, 6.0), (128, 5.0), (82, 4.0)):
        sp = ricker(pts, a)
        for s in np.linspace(-3, 3, 49):
            st.evals += 1
            try:
                sp2 = fourier.fshift(sp, s)
                r, sc = waveforms.wave_shift_corrmax(sp, sp2)
            except Exception as e:  # noqa
                ctx.fail("wave_shift_corrmax raised %r" % (e,), {"points": pts, "a": a, "shift": float(s)},
                         {"kind": "exception", "fn": "wave_shift_corrmax"})
                return
            worst = max(worst, abs(float(sc) - float(s)))
            resid = max(resid, float(np.max(np.abs(r - sp)) / np.max(np.abs(sp))))
            if abs(float(sc) - float(s)) > 0.05:
                ctx.fail("wave_shift_corrmax: estimated delay %.4f for applied shift %.4f (more than a few hundredths "
                         "of a sample)" % (sc, s), {"kind": "delay", "points": pts, "a": a, "shift": float(s)}, {"clause": "delay"})
            if np.max(np.abs(r - sp)) > 0.02 * np.max(np.abs(sp)):
                ctx.fail("wave_shift_corrmax does not re-align the shifted copy (residual %.3g of the peak)"
                         % (np.max(np.abs(r - sp)) / np.max(np.abs(sp))),
                         {"kind": "delay", "points": pts, "a": a, "shift": float(s)}, {"clause": "realign"})
    ctx.measurements["wave_shift_corrmax_max_abs_delay_error_samples"] = worst
    ctx.measurements["wave_shift_corrmax_max_realign_residual_rel_peak"] = resid
    ctx.measurements["wave_shift_corrmax_bounds"] = {"delay_error": 0.05, "residual": 0.02}
    # shift_waveform: a cluster of shifted copies is re-aligned onto the median template
    sp = ricker(121, 6.0)
    shifts = np.linspace(-2, 2, 9) + 0.137
    st.evals += 1
    try:
        wav = np.stack([np.stack([fourier.fshift(sp * g, s) for g in (0.3, 1.0, 0.3)]) for s in shifts])
        out, applied = waveforms.shift_waveform(wav)
        e1 = float(np.max(np.abs((applied - applied[4]) + (shifts - shifts[4]))))
        e2 = float(np.max(np.abs(out - out[4][None])) / np.max(np.abs(sp)))
        ctx.measurements["shift_waveform_max_abs_shift_error_samples"] = e1
        ctx.measurements["shift_waveform_max_residual_rel_peak"] = e2
        if e1 > 0.05 or e2 > 0.02 or out.shape != wav.shape:
            ctx.fail("shift_waveform does not re-align a cluster of shifted copies (shift error %.3g, residual %.3g)"
                     % (e1, e2), {"shifts": shifts.tolist()}, {"clause": "realign"})
    except Exception as e:  # noqa
        ctx.fail("shift_waveform raised %r" % (e,), {"shifts": shifts.tolist()},
                 {"kind": "exception", "fn": "shift_waveform"})


# --------------------------------------------------------------------------
# wave_shift_corrmax: exact index arithmetic against the Coq model (integer signals)
# --------------------------------------------------------------------------
def gen_corr_cases(ctx):
    rng = ctx.rng
    out = []
    nmax = 96 if ctx.thorough() else 64
    pulses = ([1, 3, 7, 3, 1], [2, -5, 9, 4], [5], [1, 2, 3, 4, 5, 6])
    for N in range(2, nmax + 1):
        reps = 3 if ctx.thorough() else 2
        for r in range(reps):
            pulse = list(rng.choice(pulses))
            if len(pulse) > N:
                pulse = pulse[:N]
            room = N - len(pulse)
            q = rng.randrange(0, room + 1)
            a = [0] * q + pulse + [0] * (room - q)
            # delays whose peak stays inside the 'same' window: 0 <= floor(N/2) - m < N
            ok = [v for v in range(0, room + 1) if 0 <= N // 2 - (v - q) < N]
            q2 = rng.choice(ok)
            b = [0] * q2 + pulse + [0] * (room - q2)          # a delayed by q2 - q, nothing pushed out
            out.append({"kind": "corr", "N": N, "a": a, "b": b, "delay": q2 - q})
        out.append({"kind": "corr", "N": N, "a": [rng.randrange(-9, 10) for _ in range(N)],
                    "b": [rng.randrange(-9, 10) for _ in range(N)], "delay": None})
    return out


def corr_check(ctx, st, cases=None):
    import scipy.signal
    fourier, utils, waveforms = impl()
    cases = cases if cases is not None else gen_corr_cases(ctx)
    inputs = [[4, c["N"]] + c["a"] + c["b"] for c in cases]
    ex = common.Extracted(PROP, "Run")
    outs = ex.run_many(inputs, nproc=4)
    rc = 0
    for c, o in zip(cases, outs):
        N = c["N"]
        a, b = np.array(c["a"], dtype=float), np.array(c["b"], dtype=float)
        st.evals += 1
        st.count("corr_len_mod4_%d" % (N % 4))
        try:
            cc = scipy.signal.correlate(a, b, mode="same")
            resync, sh = waveforms.wave_shift_corrmax(a, b)
        except Exception as e:  # noqa
            ctx.fail("wave_shift_corrmax raised %r" % (e,), c, {"kind": "exception", "fn": "wave_shift_corrmax"})
            rc = 1
            continue
        mc, mimax, mint = o[:N], o[N], o[N + 1]
        tail = o[N + 2:]
        if [int(round(v)) for v in cc] != mc or np.max(np.abs(cc - np.round(cc))) > 1e-9:
            ctx.disagree("scipy.signal.correlate(a, b, 'same') differs from the model's correlation "
                         "(zero lag at index floor(N/2))", c)
            rc = 1
            continue
        if not tail or tail[0] != 1:
            ctx.disagree("model refuses wave_shift_corrmax input", c)
            rc = 1
            continue
        msh = tail[2] / tail[3]
        if c["delay"] is not None and any(c["a"]):
            st.nontrivial.add(("corr", N, c["delay"], tuple(c["a"])))
            # property oracle: the delay of a delayed copy is returned (these pulses are short: the
            # parabola through the integer autocorrelation gives the exact integer for symmetric pulses,
            # and stays within half a sample otherwise)
            if abs(float(sh) - c["delay"]) > 0.5:
                ctx.fail("wave_shift_corrmax returns delay %.4f for a copy delayed by %d samples (length %d = %d mod 4)"
                         % (float(sh), c["delay"], N, N % 4), c, {"clause": "delay", "len_mod4": N % 4})
                rc = 1
            if mint != c["delay"]:
                ctx.disagree("model: floor(N/2) - argmax = %d for a copy delayed by %d" % (mint, c["delay"]), c)
                rc = 1
        if abs(float(sh) - msh) > 1e-9 * max(1.0, abs(msh)):
            ctx.disagree("wave_shift_corrmax delay %.12g differs from the model's %.12g (-(ipeak - floor(N/2)))"
                         % (float(sh), msh), c)
            rc = 1
        # which array is shifted, and in which direction
        try:
            exp = fourier.fshift(b, -float(sh))
        except Exception:  # noqa
            exp = None
        if exp is not None and (np.shape(resync) != np.shape(b) or np.max(np.abs(resync - exp)) > 1e-9 * 10):
            ctx.fail("wave_shift_corrmax: the re-aligned copy is not fshift(spike2, -delay)", c, {"clause": "realign"})
            rc = 1
        if c["delay"] is not None and N >= 2 and abs(msh - round(msh)) < 1e-12 and round(msh) == c["delay"]:
            if np.max(np.abs(resync - a)) > 1e-9 * 10:
                ctx.fail("wave_shift_corrmax: re-aligned copy differs from the reference for an exact integer delay",
                         c, {"clause": "realign"})
                rc = 1
    order = sorted(range(len(inputs)), key=lambda i: len(inputs[i]))
    pick = order[:6] + order[len(order) // 2: len(order) // 2 + 6]
    terms = [common.flat_cases_term(i, inputs[i], outs[i]) for i in pick]
    bad = common.coq_mismatches(PROP, HEADER, terms, shard=6) if terms else []
    for i in bad:
        ctx.disagree("kernel-evaluated correlation model differs from the extracted model", cases[i])
    ctx.coverage["model_evaluations_extracted"] = ctx.coverage.get("model_evaluations_extracted", 0) + len(inputs)
    ctx.coverage["model_evaluations_kernel"] = ctx.coverage.get("model_evaluations_kernel", 0) + len(terms)
    return rc


def delay_bounds(N):
    """(delay error, residual) bounds: the stated few hundredths for ordinary waveform lengths;
    looser for very short windows where the wavelet has to be narrow (parabolic interpolation error)."""
    return (0.05, 0.02) if N >= 48 else (0.1, 0.05)


def delay_sweep(ctx, st):
    """Every waveform length (all residues mod 4, both parities) with a cheap wavelet: integer and
    fractional applied shifts, estimated delay and re-aligned copy; then shift_waveform."""
    fourier, utils, waveforms = impl()
    rng = ctx.rng
    lengths = range(24, 401) if ctx.thorough() else range(24, 141)
    worst = {"short": 0.0, "long": 0.0, "res_short": 0.0, "res_long": 0.0}
    for N in lengths:
        a = min(6.0, max(2.5, N / 10))
        smax = max(1, N // 8)
        for dt in ("f64", "f32"):
            shifts = [0.0, float(rng.randrange(1, smax + 1)), -float(rng.randrange(1, smax + 1)),
                      rng.choice([0.5, -0.5, 1.5]), round(rng.uniform(-smax, smax), 3), 0.3]
            for js, s in enumerate(shifts):
                amp = DELAY_AMPS[(N + js + (dt == "f32")) % len(DELAY_AMPS)]      # Volt-scale ... counts
                sp = (-ricker(N, a) * amp).astype(DT[dt])
                desc = {"kind": "delay", "points": N, "a": a, "shift": s, "dtype": dt, "negate": True,
                        "amplitude": amp}
                st.count("delay_amp_%g" % amp)
                st.evals += 1
                st.count("delay_len_mod4_%d" % (N % 4))
                try:
                    r, sc = waveforms.wave_shift_corrmax(sp, fourier.fshift(sp, s))
                except Exception as e:  # noqa
                    ctx.fail("wave_shift_corrmax raised %r" % (e,), desc, {"kind": "exception", "fn": "wave_shift_corrmax"})
                    continue
                st.nontrivial.add(("delay", N, dt, s))
                be, br = delay_bounds(N)
                e = abs(float(sc) - s)
                rr = float(np.max(np.abs(r - sp)) / np.max(np.abs(sp)))
                key = "long" if N >= 48 else "short"
                worst[key] = max(worst[key], e)
                worst["res_" + key] = max(worst["res_" + key], rr)
                if e > be:
                    ctx.fail("wave_shift_corrmax: estimated delay %.4f for applied shift %.4f (waveform length %d = %d "
                             "mod 4, amplitude %g, bound %.2f)" % (float(sc), s, N, N % 4, amp, be), desc,
                             {"clause": "delay", "len_mod4": N % 4})
                elif rr > br:
                    ctx.fail("wave_shift_corrmax does not re-align the shifted copy (residual %.3g of the peak, "
                             "length %d)" % (rr, N), desc, {"clause": "realign", "len_mod4": N % 4})
    ctx.measurements["delay_sweep_max_abs_error_samples"] = {"N>=48 (bound 0.05)": worst["long"],
                                                             "24<=N<48 (bound 0.1)": worst["short"]}
    ctx.measurements["delay_sweep_max_residual_rel_peak"] = {"N>=48 (bound 0.02)": worst["res_long"],
                                                             "24<=N<48 (bound 0.05)": worst["res_short"]}
    # shift_waveform on clusters (spike, trace, time) of every length
    w1 = w2 = 0.0
    for N in (range(40, 201) if ctx.thorough() else range(40, 104)):
        a = min(6.0, max(4.0, N / 10))
        amp = DELAY_AMPS[N % len(DELAY_AMPS)]
        sp = -ricker(N, a) * amp
        shifts = np.array([-1.5, -1.0, 0.0, round(rng.uniform(-2, 2), 3), 1.0, 2.25, 0.0])
        desc = {"kind": "cluster", "points": N, "a": a, "shifts": shifts.tolist(), "amplitude": amp}
        st.evals += 1
        st.count("shift_waveform_len_mod4_%d" % (N % 4))
        try:
            wav = np.stack([np.stack([fourier.fshift(sp * g, s) for g in (0.3, 1.0, 0.3)]) for s in shifts])
            out, applied = waveforms.shift_waveform(wav)
        except Exception as e:  # noqa
            ctx.fail("shift_waveform raised %r" % (e,), desc, {"kind": "exception", "fn": "shift_waveform"})
            continue
        st.nontrivial.add(("cluster", N))
        if out.shape != wav.shape or np.shape(applied) != (len(shifts),):
            ctx.fail("shift_waveform: output shapes %s %s" % (out.shape, np.shape(applied)), desc, {"clause": "shape_dtype"})
            continue
        # the template is the median waveform = (nearly) the unshifted one: spike i must be moved by -shift_i
        e1 = float(np.max(np.abs((applied - applied[2]) + (shifts - shifts[2]))))
        e2 = float(np.max(np.abs(out - out[2][None])) / np.max(np.abs(sp)))
        w1, w2 = max(w1, e1), max(w2, e2)
        if e1 > 0.05 or e2 > 0.02:
            ctx.fail("shift_waveform does not re-align a cluster of shifted copies (length %d = %d mod 4: shift error "
                     "%.3g sample, residual %.3g of the peak)" % (N, N % 4, e1, e2), desc,
                     {"clause": "realign", "len_mod4": N % 4})
    # wave_shift_phase (phase-slope estimator): same clause, a few lengths x every amplitude
    import warnings
    wph = 0.0
    for N in ((81, 82, 83, 121, 128, 127) if ctx.thorough() else (82, 83, 121)):
        for amp in DELAY_AMPS:
            s = round(rng.uniform(-0.9, 0.9), 3)
            sp = -ricker(N, 6.0) * amp
            desc = {"kind": "delay_phase", "points": N, "a": 6.0, "shift": s, "amplitude": amp}
            st.evals += 1
            st.count("delay_phase")
            try:
                with warnings.catch_warnings():
                    warnings.simplefilter("ignore")
                    r, sc = waveforms.wave_shift_phase(sp, fourier.fshift(sp, s), 30000.0)
            except Exception as e:  # noqa
                ctx.fail("wave_shift_phase raised %r" % (e,), desc, {"kind": "exception", "fn": "wave_shift_phase"})
                continue
            st.nontrivial.add(("delay_phase", N, amp, s))
            e = abs(float(sc) - s)
            rr = float(np.max(np.abs(r - sp)) / np.max(np.abs(sp)))
            wph = max(wph, e)
            if e > 0.05 or rr > 0.02:
                ctx.fail("wave_shift_phase: estimated delay %.4f for applied shift %.4f (length %d, amplitude %g), "
                         "residual %.3g" % (float(sc), s, N, amp, rr), desc, {"clause": "delay"})
    ctx.measurements["wave_shift_phase_max_abs_error_samples (bound 0.05)"] = wph
    ctx.measurements["shift_waveform_sweep"] = {"max_shift_error_samples (bound 0.05)": w1,
                                                "max_residual_rel_peak (bound 0.02)": w2}


# --------------------------------------------------------------------------
# round 2: axis spellings / shift containers / memory layouts
# --------------------------------------------------------------------------
def parameter_variation_check(ctx, st):
    """Round 4 parameter audit: spellings of each public parameter that the other generators leave at
    one value."""
    fourier, utils, waveforms = impl()
    rng = ctx.rng
    for n in (7, 16, 31, rng.randrange(8, 120)):
        for dt in ("f64", "f32"):
            x = np.array([rng.randrange(-100, 101) for _ in range(n)], dtype=DT[dt])
            sfrac = round(rng.uniform(-n, n), 6)
            mint = rng.randrange(-n + 1, n)
            try:
                ref_f = fourier.fshift(x, float(sfrac))
                ref_i = fourier.fshift(x, int(mint))
            except Exception as e:  # noqa
                ctx.fail("fshift: %s" % e, {"kind": "param", "n": n, "x": x.tolist(), "s": sfrac}, {"kind": "exception"})
                continue
            # s as every scalar type: must equal the python-float / python-int result
            for nm, sv, ref in (("np.float64", np.float64(sfrac), ref_f), ("np.float32", np.float32(sfrac), None),
                                ("np.int64", np.int64(mint), ref_i), ("np.int32", np.int32(mint), ref_i),
                                ("np.int8", np.int8(max(-100, min(100, mint))), None),
                                ("float_of_int", float(mint), ref_i), ("bool", True, None)):
                desc = {"kind": "param", "n": n, "dtype": dt, "x": x.tolist(), "s": float(sv), "s_type": nm}
                y = call(ctx, st, "fshift", lambda: fourier.fshift(x, sv), desc, {"clause": "scalar_shift"})
                if y is None:
                    continue
                st.count("param_scalar_" + nm)
                if ref is None:
                    ref = call(ctx, st, "fshift", lambda: fourier.fshift(x, float(sv)), desc, {"clause": "scalar_shift"})
                    if ref is None:
                        continue
                ok, err = close(y, ref, dt, 100.0)
                if not ok:
                    ctx.fail("fshift with the shift given as %s differs from the same value given as a python number "
                             "(max err %.3g)" % (nm, err), desc, {"clause": "scalar_shift"})
            # ns given explicitly (same length) or as 0 / None on a real input: same as the default
            for nsv in (n, None, 0, np.int64(n)):
                desc = {"kind": "param", "n": n, "dtype": dt, "x": x.tolist(), "s": sfrac, "ns": None if nsv is None else int(nsv)}
                y = call(ctx, st, "fshift", lambda: fourier.fshift(x, sfrac, ns=nsv), desc, {"clause": "ns_param"})
                if y is None:
                    continue
                st.count("param_ns")
                ok, err = close(y, ref_f, dt, 100.0)
                if not ok:
                    ctx.fail("fshift(x, s, ns=%r) on a real input differs from fshift(x, s)" % (nsv,), desc, {"clause": "ns_param"})
        # complex 2-D half spectra with per-trace shifts along the last axis and along axis 0
        ntr = 3
        X = np.array([rng.randrange(-50, 51) for _ in range(ntr * n)], dtype=float).reshape(ntr, n)
        sv = np.array([round(rng.uniform(-n, n), 4) for _ in range(ntr)])
        desc = {"kind": "param", "n": n, "x": X.ravel().tolist(), "svec": sv.tolist(), "what": "complex 2-D, per-trace, ns="}
        st.evals += 1
        try:
            ref = np.stack([fourier.fshift(np.ascontiguousarray(X[i]), float(sv[i])) for i in range(ntr)])
            W1 = scipy.fft.rfft(X, axis=-1)
            y1 = scipy.fft.irfft(fourier.fshift(W1, sv, axis=-1, ns=n), n, axis=-1)
            W0 = scipy.fft.rfft(np.ascontiguousarray(X.T), axis=0)
            y0 = scipy.fft.irfft(fourier.fshift(W0, sv, axis=0, ns=n), n, axis=0).T
            st.count("param_complex_2d")
            if np.max(np.abs(y1 - ref)) > 1e-9 * 100 or np.max(np.abs(y0 - ref)) > 1e-9 * 100:
                ctx.fail("frequency-domain entry on a 2-D spectrum with per-trace shifts differs from the time-domain "
                         "shift of each trace", desc, {"clause": "complex_entry"})
        except Exception as e:  # noqa
            ctx.fail("fshift(complex 2-D, ns=): %s" % e, desc, {"kind": "exception"})
    # wave_shift_corrmax: unequal lengths are refused (assert), as in the model (corrmax_shift = None)
    st.evals += 1
    try:
        waveforms.wave_shift_corrmax(np.arange(8.0), np.arange(9.0))
        ctx.disagree("wave_shift_corrmax accepts waveforms of unequal lengths (the model refuses)", {"kind": "param"})
    except Exception:  # noqa
        st.count("param_corrmax_unequal_refused")
    # wave_shift_phase: fs and explicit (a_pos, b_pos) do not change the estimate; shift_waveform on float32
    sp = -ricker(121, 6.0)
    sp2 = None
    try:
        import warnings
        with warnings.catch_warnings():
            warnings.simplefilter("ignore")
            sp2 = fourier.fshift(sp, 0.37)
            e0 = waveforms.wave_shift_phase(sp, sp2, 30000.0)[1]
            e1 = waveforms.wave_shift_phase(sp, sp2, 2500.0)[1]
            a_pos, b_pos, _, _ = _guard(waveforms._m.get_spike_slopeparams, sp, 30000.0)
            e2 = _scalar(_guard(waveforms._m.wave_shift_phase, sp, sp2, 30000.0, a_pos, b_pos)[1], "wave_shift_phase delay")
        st.evals += 3
        st.count("param_wave_shift_phase")
        if max(abs(e0 - 0.37), abs(e1 - 0.37), abs(e2 - 0.37)) > 0.05:
            ctx.fail("wave_shift_phase estimate depends on fs / explicit slope parameters: %r %r %r for applied 0.37"
                     % (e0, e1, e2), {"kind": "delay_phase", "points": 121, "a": 6.0, "shift": 0.37, "amplitude": 1.0},
                     {"clause": "delay"})
        wav = np.stack([np.stack([fourier.fshift(sp * g, s) for g in (0.3, 1.0)]) for s in (-1.0, 0.0, 0.6)]).astype(np.float32)
        out, applied = waveforms.shift_waveform(wav)
        st.count("param_shift_waveform_f32")
        if np.max(np.abs(applied + np.array([-1.0, 0.0, 0.6]))) > 0.05:
            ctx.fail("shift_waveform on float32 input: applied shifts %s" % applied.tolist(),
                     {"kind": "cluster", "points": 121, "a": 6.0, "shifts": [-1.0, 0.0, 0.6]}, {"clause": "realign"})
    except Exception as e:  # noqa
        ctx.fail("delay estimators (parameter variations): %s" % e, {"kind": "param"}, {"kind": "exception"})


def axis_spelling_check(ctx, st):
    """Per-trace shifts on non-square 2-D arrays (including ntr == n//2 + 1, where a shift vector laid
    along the wrong axis still broadcasts), every spelling of the axis (python / NumPy integers,
    negative), shift vector as 1-D array, column, row, integer array; C-, F-ordered and strided inputs."""
    fourier, utils, waveforms = impl()
    rng = ctx.rng
    lengths = [4, 8, 16, 30, 31, 45] + [rng.randrange(5, 80) for _ in range(6 if not ctx.thorough() else 30)]
    for n in lengths:
        for ntr in sorted({n // 2 + 1, 3, rng.randrange(1, 7)}):
            dt = rng.choice(["f64", "f32"])
            X = np.array([rng.randrange(-100, 101) for _ in range(ntr * n)], dtype=DT[dt]).reshape(ntr, n)
            allint = rng.random() < 0.4
            sv = np.array([gen_shift(rng, n, "int" if allint else rng.choice(["int", "frac"])) for _ in range(ntr)],
                          dtype=float)
            try:
                ref = np.stack([fourier.fshift(np.ascontiguousarray(X[i]), float(sv[i])) for i in range(ntr)])
            except Exception as e:  # noqa
                ctx.fail("fshift raised %r" % (e,), {"kind": "axis", "n": n}, {"kind": "exception"})
                continue
            layouts = {"C": X, "F": np.asfortranarray(X),
                       "strided": np.repeat(X, 2, axis=1)[:, ::2], "transposed_view": None}
            for lname, arr in layouts.items():
                for ax_name, ax, use_t in (("1", 1, False), ("-1", -1, False), ("np.int64(1)", np.int64(1), False),
                                           ("np.int32(-1)", np.int32(-1), False), ("0", 0, True), ("-2", -2, True),
                                           ("np.int64(0)", np.int64(0), True), ("np.int16(-2)", np.int16(-2), True)):
                    if lname == "transposed_view":
                        A = X.T if use_t else np.ascontiguousarray(X.T).T
                    else:
                        A = np.ascontiguousarray(arr.T) if use_t and lname == "C" else (arr.T.copy(order="F") if use_t else arr)
                    for sname, svv in (("1d", sv), ("1d_int64" if np.all(sv == np.round(sv)) else "1d_again",
                                                   sv.astype(np.int64) if np.all(sv == np.round(sv)) else sv.copy()),
                                       ("column" if not use_t else "row",
                                                   sv.reshape(-1, 1) if not use_t else sv.reshape(1, -1)),
                                       ("wrong_orientation", sv.reshape(1, -1) if not use_t else sv.reshape(-1, 1))):
                        if sname != "1d" and lname not in ("C",):
                            continue
                        desc = {"kind": "axis", "n": n, "ntr": ntr, "dtype": dt, "axis": ax_name, "layout": lname,
                                "shift_form": sname, "x": X.ravel().tolist(), "svec": sv.tolist()}
                        before = A.copy()
                        y = call(ctx, st, "fshift", lambda: fourier.fshift(A, svv, axis=ax), desc, {"clause": "per_trace"})
                        if y is None or not shape_ok(ctx, y, A, desc):
                            continue
                        st.count("axis_%s" % ("first" if use_t else "last"))
                        st.nontrivial.add(("axis", n, ntr, ax_name, lname, sname))
                        if not np.array_equal(A, before):
                            ctx.fail("real input array modified by fshift", desc, {"clause": "input_untouched"})
                        ok, err = close(y.T if use_t else y, ref, dt, 100.0)
                        if not ok:
                            ctx.fail("per-trace shifts with axis=%s (%s layout, shifts as %s): traces are not shifted "
                                     "with their own shift (max err %.3g)" % (ax_name, lname, sname, err), desc,
                                     {"clause": "per_trace"})
    # documented, outside the property (dtype float32/float64, real input, ndarray shifts): recorded, not judged
    obs = {}
    try:
        obs["integer_dtype_input_truncates"] = fourier.fshift(np.array([3, 1, 0, 0]), 1).tolist()
    except Exception as e:  # noqa
        obs["integer_dtype_input_truncates"] = repr(e)
    try:
        W = scipy.fft.rfft(np.array([1., 2, 3, 4]))
        W0 = W.copy()
        R = fourier.fshift(W, 1, ns=4)
        obs["complex_input_modified_in_place"] = bool(R is W and not np.allclose(W, W0))
    except Exception as e:  # noqa
        obs["complex_input_modified_in_place"] = repr(e)
    for nm, v in (("list", [1., 2., 3.]), ("tuple", (1., 2., 3.)), ("0-d array on 3 traces", np.array(1.5))):
        try:
            fourier.fshift(np.zeros((3, 4)), v)
            obs["shifts_as_%s" % nm] = "accepted"
        except Exception as e:  # noqa
            obs["shifts_as_%s" % nm] = type(e).__name__
    ctx.measurements["observations_outside_property"] = obs


# --------------------------------------------------------------------------
# round 2: fshift(W, s, ns=n) on a complex half spectrum, vs the model (op 5)
# --------------------------------------------------------------------------
def freq_check(ctx, st):
    fourier, utils, waveforms = impl()
    rng = ctx.rng
    cases = []
    for n in list(range(2, 21)) + [rng.randrange(21, 64) for _ in range(6)]:
        for _ in range(2):
            h = n // 2 + 1
            W = [(rng.randrange(-50, 51), rng.randrange(-50, 51)) for _ in range(h)]
            cases.append({"kind": "freq", "n": n, "W": W, "s": gen_shift(rng, n, rng.choice(["int", "frac"]))})
    inputs = [[5, c["n"]] + [v for z in c["W"] for v in z] + enc_complex(phase_table(c["n"], c["s"])) for c in cases]
    outs = common.Extracted(PROP, "Run").run_many(inputs, nproc=2)
    for c, o in zip(cases, outs):
        st.evals += 1
        st.count("freq_entry_model")
        W = np.array([complex(a, b) for a, b in c["W"]])
        try:
            R = fourier.fshift(W.copy(), c["s"], ns=c["n"])
            x = scipy.fft.irfft(W, c["n"])
            back = scipy.fft.irfft(fourier.fshift(scipy.fft.rfft(x), c["s"], ns=c["n"]), c["n"])
            direct = fourier.fshift(x, c["s"])
        except Exception as e:  # noqa
            ctx.fail("fshift(complex, ns=) raised %r" % (e,), c, {"kind": "exception", "fn": "fshift_ns"})
            continue
        if not o or o[0] != 1 or len(o) != 1 + 2 * len(W):
            ctx.disagree("model refuses a frequency-domain input the implementation accepts", c)
            continue
        m = np.array(o[1::2][0:0] or [complex(o[1 + 2 * k], o[2 + 2 * k]) for k in range(len(W))]) / OUTSC
        st.nontrivial.add(("freq", c["n"], c["s"]))
        if R.shape != W.shape or not np.iscomplexobj(R) or np.max(np.abs(R - m)) > 1e-9 * 100:
            ctx.disagree("fshift(W, s, ns=n) differs from the model's W*phase (max %.3g)" % float(np.max(np.abs(R - m))), c)
        if np.max(np.abs(back - direct)) > 1e-9 * 100:
            ctx.fail("irfft(fshift(rfft(x), s, ns=n), n) != fshift(x, s) (max %.3g)" % float(np.max(np.abs(back - direct))),
                     c, {"clause": "complex_entry"})
    ctx.coverage["model_evaluations_extracted"] = ctx.coverage.get("model_evaluations_extracted", 0) + len(inputs)


# --------------------------------------------------------------------------
# round 2: get_apf_from2spikes (cross spectrum) vs the model (op 6)
# --------------------------------------------------------------------------
def cross_check(ctx, st):
    fourier, utils, waveforms = impl()
    rng = ctx.rng
    cases = []
    for n in list(range(2, 17)) + [rng.randrange(17, 40) for _ in range(4)]:
        x = [rng.randrange(-20, 21) for _ in range(n)]
        m = rng.randrange(-n + 1, n)
        cases.append({"kind": "cross", "n": n, "x": x, "y": np.roll(x, m).tolist(), "roll": m})
        cases.append({"kind": "cross", "n": n, "x": x, "y": [rng.randrange(-20, 21) for _ in range(n)], "roll": None})
    inputs = [[6, c["n"]] + c["x"] + c["y"] + enc_complex(twiddles(c["n"])) for c in cases]
    outs = common.Extracted(PROP, "Run").run_many(inputs, nproc=2)
    for c, o in zip(cases, outs):
        st.evals += 1
        st.count("cross_spectrum_model")
        n = c["n"]
        x, y = np.array(c["x"], dtype=float), np.array(c["y"], dtype=float)
        try:
            amp, phase, fsc = waveforms.get_apf_from2spikes(x, y, 30000.0)
        except Exception as e:  # noqa
            ctx.fail("get_apf_from2spikes raised %r" % (e,), c, {"kind": "exception", "fn": "get_apf_from2spikes"})
            continue
        m = np.array([complex(o[2 * k], o[2 * k + 1]) for k in range(n // 2 + 1)]) / 1048576.0
        scale = max(1.0, float(np.max(np.abs(m))))
        st.nontrivial.add(("cross", n, tuple(c["x"]), tuple(c["y"])))
        if len(amp) != n // 2 + 1 or np.max(np.abs(amp * np.exp(1j * phase) - m)) > 1e-9 * scale * 1000:
            ctx.disagree("get_apf_from2spikes: amp*exp(i*phase) differs from the model's rfft(x)*conj(rfft(y))", c)
        if c["roll"] is not None:
            # theorem C07_cross_spectrum_of_shifted_copy: bins strictly between DC and Nyquist carry
            # |X_k|^2 * conj(p_k) = |X_k|^2 e^{+2 pi i k m / n}
            k = np.arange(n // 2 + 1)
            exp = np.abs(np.fft.rfft(x)) ** 2 * np.exp(2j * np.pi * k * c["roll"] / n)
            sel = (k > 0) & (2 * k < n)
            if np.any(sel) and np.max(np.abs((amp * np.exp(1j * phase) - exp)[sel])) > 1e-9 * scale * 1000:
                ctx.fail("cross spectrum of a signal and its rolled copy is not |X|^2 e^{2 pi i k m/n}", c,
                         {"clause": "cross_spectrum"})
    ctx.coverage["model_evaluations_extracted"] = ctx.coverage.get("model_evaluations_extracted", 0) + len(inputs)


# --------------------------------------------------------------------------
# round 2: shift_waveform on integer clusters vs the model (op 7)
# --------------------------------------------------------------------------
def gen_clusters(ctx):
    rng = ctx.rng
    out = []
    pulses = ([1, 3, 7, 3, 1], [2, 5, 9, 5, 2], [1, 4, 1], [3, 8, 3])
    for nt in (list(range(7, 40)) if not ctx.thorough() else list(range(7, 90))):
        nsp = rng.choice([1, 2, 3, 4, 5, 6])
        ntr = rng.choice([1, 2, 3])
        pulse = list(rng.choice(pulses))
        gains = [rng.choice([1, 2, 3, -4, 5]) for _ in range(ntr)]
        room = nt - len(pulse)
        centre = room // 2
        wf = []
        for _ in range(nsp):
            d = rng.choice([0, 0, 1, -1, 2, -2])
            q = min(max(centre + d, 0), room)
            base = [0] * q + pulse + [0] * (room - q)
            wf.append([[g * v for v in base] for g in gains])
        out.append({"kind": "cluster_int", "nsp": nsp, "ntr": ntr, "nt": nt, "wf": wf})
    return out


def cluster_check(ctx, st, cases=None):
    fourier, utils, waveforms = impl()
    cases = cases if cases is not None else gen_clusters(ctx)
    inputs = [[7, c["nsp"], c["ntr"], c["nt"]] + [v for sp in c["wf"] for row in sp for v in row] for c in cases]
    outs = common.Extracted(PROP, "Run").run_many(inputs, nproc=4)
    rc = 0
    for c, o in zip(cases, outs):
        st.evals += 1
        st.count("shift_waveform_model_len_mod4_%d" % (c["nt"] % 4))
        wav = np.array(c["wf"], dtype=float)
        try:
            out, applied = waveforms.shift_waveform(wav.copy())
        except Exception as e:  # noqa
            ctx.fail("shift_waveform raised %r" % (e,), c, {"kind": "exception", "fn": "shift_waveform"})
            rc = 1
            continue
        if not o or o[0] != 1:
            ctx.disagree("shift_waveform model refuses", c)
            rc = 1
            continue
        pos = 2
        mshift = []
        for _ in range(c["nsp"]):
            assert o[pos] == 1 and o[pos + 2] == 1
            mshift.append(o[pos + 4] / o[pos + 5])
            pos += 6
        mshift = np.array(mshift)
        st.nontrivial.add(("cluster_int", c["nt"], c["nsp"], c["ntr"], tuple(inputs[cases.index(c)][4:20])))
        if out.shape != wav.shape or np.shape(applied) != (c["nsp"],):
            ctx.fail("shift_waveform: output shapes %s %s" % (out.shape, np.shape(applied)), c, {"clause": "shape_dtype"})
            rc = 1
            continue
        if np.max(np.abs(applied - mshift)) > 1e-9 * 10:
            ctx.disagree("shift_waveform: applied shifts %s differ from the model's %s (median template, peak trace %d, "
                         "-(ipeak - floor(nt/2)))" % (applied.tolist(), mshift.tolist(), o[1]), c)
            rc = 1
        try:
            exp = np.stack([fourier.fshift(wav[i], float(applied[i])) for i in range(c["nsp"])])
        except Exception as e:  # noqa
            ctx.fail("fshift raised %r" % (e,), c, {"kind": "exception"})
            rc = 1
            continue
        if np.max(np.abs(out - exp)) > 1e-9 * 100:
            ctx.fail("shift_waveform: spike i is not fshift(spike i, shift_i) on all its traces", c, {"clause": "realign"})
            rc = 1
        if c["nsp"] >= 1 and all(sp == c["wf"][0] for sp in c["wf"]):
            if np.max(np.abs(applied)) > 1e-9 or np.max(np.abs(out - wav)) > 1e-9 * 100:
                ctx.fail("shift_waveform moves the spikes of an already aligned cluster (shifts %s, length %d = %d mod 4)"
                         % (applied.tolist(), c["nt"], c["nt"] % 4), c, {"clause": "realign", "len_mod4": c["nt"] % 4})
                rc = 1
    order = sorted(range(len(inputs)), key=lambda i: len(inputs[i]))[:6]
    terms = [common.flat_cases_term(i, inputs[i], outs[i]) for i in order]
    bad = common.coq_mismatches(PROP, HEADER, terms, shard=3) if terms else []
    for i in bad:
        ctx.disagree("kernel-evaluated shift_waveform model differs from the extracted model", cases[i])
    ctx.coverage["model_evaluations_extracted"] = ctx.coverage.get("model_evaluations_extracted", 0) + len(inputs)
    ctx.coverage["model_evaluations_kernel"] = ctx.coverage.get("model_evaluations_kernel", 0) + len(terms)
    return rc


def roll_correspondence(ctx, st):
    """np.roll (the oracle's reference) against the model's roll_list (the theorems' reference): exact."""
    rng = ctx.rng
    inputs, outs, descs = [], [], []
    for n in list(range(1, 12)) + [rng.randrange(12, 200) for _ in range(20)]:
        for m in {0, 1, -1, n, -n, n + 1, -n - 1, rng.randrange(-5 * n, 5 * n + 1), rng.randrange(-n, n + 1)}:
            x = [rng.randrange(-1000, 1001) for _ in range(n)]
            inputs.append([3, m, n] + x)
            outs.append([int(v) for v in np.roll(np.array(x, dtype=np.int64), m)])
            descs.append({"kind": "roll", "m": m, "x": x})
            st.evals += 1
            st.count("roll_model")
    common.correspondence(ctx, PROP, HEADER, inputs, outs, lambda i: descs[i], n_kernel=30)


def run(ctx):
    common.proof_obligations(ctx, whitelist=sorted(common.STDLIB_AXIOMS), modules=("Props", "FloatProps"))
    # only the Flocq statement of FloatProps.v may use the real-number axioms; everything else stays closed
    for name, ax in list(ctx.theorems.items()):
        if name not in FLOAT_THEOREMS and ax != "Closed under the global context":
            ctx.broken_proofs.append({"theorem": name, "why": "no longer closed under the global context: %s" % (ax,)})
    st = Stats()
    cases = gen_model_cases(ctx)
    kept = model_correspondence(ctx, st, cases)
    kernel_fshift = ctx.coverage.get("model_evaluations_kernel", 0)
    extracted_fshift = ctx.coverage.get("model_evaluations_extracted", 0)
    roll_correspondence(ctx, st)
    ctx.coverage["model_evaluations_kernel"] += kernel_fshift
    ctx.coverage["model_evaluations_extracted"] += extracted_fshift
    parab_check(ctx, st)
    ns = n_values(ctx)
    for n in ns:
        oracle_n(ctx, st, n)
    full = set(ns)
    light = [n for n in range(2, 2049) if n not in full] if ctx.thorough() else \
        sorted({ctx.rng.randrange(2, 2049) for _ in range(60)} - full)
    for n in light:
        oracle_n_light(ctx, st, n)
    st.dist["n_values_light"] = len(light)
    measure_delay(ctx, st)
    corr_check(ctx, st)
    delay_sweep(ctx, st)
    axis_spelling_check(ctx, st)
    parameter_variation_check(ctx, st)
    freq_check(ctx, st)
    cross_check(ctx, st)
    cluster_check(ctx, st)
    samples = [{"shape": c["shape"], "axis": c["axis"], "dtype": c["dtype"], "x": c["x"][:8], "s": c["s"]}
               for c in kept[:: max(1, len(kept) // 6)]]
    st.dist["n_values_oracle"] = len(ns)
    st.dist["n_min_max"] = [min(ns), max(ns)]
    st.dist["n_even_odd"] = [sum(1 for n in ns if n % 2 == 0), sum(1 for n in ns if n % 2)]
    ctx.measurements["max_rel_error_observed"] = st.maxerr
    return common.finish(
        ctx, TRUSTED,
        rule="(a) n in 2..10 (13 thorough): 1-D/2-D arrays, both axes, scalar and per-trace, integer and dyadic "
             "fractional shifts, float32/float64, integer-valued signals (impulse, Nyquist+DC, random) through the "
             "real fourier.fshift and through the Q(i) instance of the Coq model with NumPy's twiddles/phases as data "
             "(tolerance 1e-9*scale f64, 1e-4*scale f32); (b) for each n of a boundary-heavy list in 2..2048 (all of "
             "2..600 in thorough) the consequences of the theorems on the whole impulse basis np.eye(n): integer "
             "shift == np.roll, zero shift == identity, per-trace shifts along both axes, composition (with the "
             "proved Nyquist defect for even n), analytic delay of band-limited trigonometric polynomials, dtype/"
             "shape, input untouched; (c) utils.parabolic_max vs the Q model and the vertex/edge oracle; "
             "non-trivial = shift not a multiple of n (or interior parabola); distinct by (n, dtype, kind, shift)",
        samples=samples, evaluations=st.evals, distinct_nontrivial=len(st.nontrivial),
        extra={"input_distribution": st.dist, "exhaustive": False},
        assumptions=["scipy.fft.rfft/irfft are the DFT sums over a primitive n-th root of unity (C2R ignores Im of DC/"
                     "Nyquist)", "np.exp(1j*angle*s) is a homomorphism in s with value rfft(delta_1) at s=1"])


def _cmp(label, got, exp, tol):
    got, exp = np.asarray(got), np.asarray(exp)
    if got.shape != exp.shape:
        print("%s: shape %s, expected %s" % (label, got.shape, exp.shape))
        return 1
    err = float(np.max(np.abs(got.astype(float) - exp.astype(float)))) if got.size else 0.0
    flat_g, flat_e = got.ravel(), exp.ravel()
    k = int(np.argmax(np.abs(flat_g.astype(float) - flat_e.astype(float)))) if got.size else 0
    print("%s: max |implementation - expected| = %.3g (tolerance %.3g); worst element %d: %r vs %r" % (
        label, err, tol, k, flat_g[k] if got.size else None, flat_e[k] if got.size else None))
    print("   implementation head:", flat_g[:8].tolist(), "\n   expected head      :", flat_e[:8].tolist())
    return 0 if err <= tol else 1


def replay(ctx, data):
    """Re-run the implementation (and the model where one applies) on the recorded input."""
    inp = data.get("input") or (data.get("correspondence_disagreements") or [{}])[0].get("input")
    print(json.dumps({k: v for k, v in data.items() if k != "input"}, indent=1)[:2500])
    if not inp:
        return 1
    print("input:", json.dumps(inp)[:1500])
    fourier, utils, waveforms = impl()
    kind = inp.get("kind")
    dt = inp.get("dtype", "f64")
    tol = tol_of(dt)
    try:
        if kind == "model":
            x, x0, y = impl_fshift(inp)
            o = common.Extracted(PROP, "Run").run_many([enc_model_input(inp)], nproc=1)[0]
            if not o or o[0] != 1:
                print("model refuses; implementation returned", np.asarray(y).tolist())
                return 1
            m = (np.array(o[1:], dtype=float) / OUTSC).reshape(inp["shape"])
            return _cmp("fshift vs Coq model", y, m.astype(y.dtype), tol * max(1.0, float(np.max(np.abs(inp["x"])))))
        if kind == "roll":
            o = common.Extracted(PROP, "Run").run_many([[3, inp["m"], len(inp["x"])] + inp["x"]], nproc=1)[0]
            return _cmp("np.roll vs model roll_list", np.roll(np.array(inp["x"]), inp["m"]), np.array(o), 0)
        if kind == "parab":
            x = np.array(inp["x"], dtype=float)
            print("implementation parabolic_max:", utils.parabolic_max(x))
            if "amplitude" in inp and x.ndim == 1:
                ip, mx = utils.parabolic_max(x)
                ipc, mxc = utils.parabolic_max(x * inp["amplitude"])
                print("parabolic_max(c*x), c=%g:" % inp["amplitude"], (float(ipc), float(mxc)),
                      " expected (same index, c*value) =", (float(ip), float(mx) * inp["amplitude"]))
                return 1 if abs(float(ipc) - float(ip)) > 1e-9 * max(1, abs(float(ip))) else 0
            if x.ndim == 1:
                o = common.Extracted(PROP, "Run").run_many([[2, len(x)] + [int(v) for v in x]], nproc=1)[0] \
                    if np.all(x == np.round(x)) else None
                print("model (ok, edge, ipeak num, den, max num, den):", o)
                if o and o[0] == 1:
                    ip, mx = utils.parabolic_max(x)
                    return _cmp("parabolic_max vs model", [float(ip), float(mx)], [o[2] / o[3], o[4] / o[5]], 1e-9 * max(1, abs(o[4] / o[5])))
                if "vertex" in inp:
                    print("exact parabola with vertex", inp["vertex"])
            return 1
        if kind == "corr":
            st = Stats()
            c2 = common.Ctx(PROP, ctx.tier, ctx.seed)
            c2.rng = ctx.rng
            a, b = np.array(inp["a"], dtype=float), np.array(inp["b"], dtype=float)
            print("correlate(a, b, 'same') =", scipy.signal.correlate(a, b, mode="same").tolist())
            print("wave_shift_corrmax(a, b) delay =", float(waveforms.wave_shift_corrmax(a, b)[1]),
                  " (b is a delayed by %s)" % inp.get("delay"))
            o = common.Extracted(PROP, "Run").run_many([[4, inp["N"]] + inp["a"] + inp["b"]], nproc=1)[0]
            N = inp["N"]
            print("model: correlation", o[:N], "argmax", o[N], "floor(N/2)-argmax", o[N + 1],
                  "delay", (o[N + 4] / o[N + 5]) if o[N + 2] == 1 else None)
            rc = corr_check(c2, st, [inp])
            for f in c2.oracle_failures + c2.disagreements:
                print("FAILS:", f["what"])
            return 1 if (rc or c2.oracle_failures or c2.disagreements) else 0
        if kind == "delay_phase":
            sp = -ricker(inp["points"], inp["a"]) * inp.get("amplitude", 1.0)
            r, sc = waveforms.wave_shift_phase(sp, fourier.fshift(sp, inp["shift"]), 30000.0)
            print("applied shift %r, wave_shift_phase estimate %r" % (inp["shift"], float(sc)))
            return 1 if abs(float(sc) - inp["shift"]) > 0.05 else 0
        if kind == "cluster":
            sp = -ricker(inp["points"], inp["a"]) * inp.get("amplitude", 1.0)
            shifts = np.array(inp["shifts"])
            wav = np.stack([np.stack([fourier.fshift(sp * g, s) for g in (0.3, 1.0, 0.3)]) for s in shifts])
            out, applied = waveforms.shift_waveform(wav)
            e1 = float(np.max(np.abs((applied - applied[2]) + (shifts - shifts[2]))))
            e2 = float(np.max(np.abs(out - out[2][None])) / np.max(np.abs(sp)))
            print("shifts of the copies:", shifts.tolist(), "\nshifts applied by shift_waveform:", applied.tolist())
            print("relative shift error %.3g sample, residual %.3g of the peak" % (e1, e2))
            return 1 if e1 > 0.05 or e2 > 0.02 else 0
        if kind == "delay":
            sp = ricker(inp["points"], inp["a"])
            if inp.get("negate"):
                sp = (-sp * inp.get("amplitude", 1.0)).astype(DT[inp.get("dtype", "f64")])
            be, br = delay_bounds(inp["points"]) if inp.get("negate") else (0.05, 0.02)
            r, sc = waveforms.wave_shift_corrmax(sp, fourier.fshift(sp, inp["shift"]))
            print("applied shift %r, estimated %r, re-alignment residual %.3g of the peak (length %d = %d mod 4)" % (
                inp["shift"], float(sc), float(np.max(np.abs(r - sp)) / np.max(np.abs(sp))), inp["points"],
                inp["points"] % 4))
            return 1 if abs(float(sc) - inp["shift"]) > be or np.max(np.abs(r - sp)) > br * np.max(np.abs(sp)) else 0
        if kind == "delay_old":
            sp = ricker(inp["points"], inp["a"])
            r, sc = waveforms.wave_shift_corrmax(sp, fourier.fshift(sp, inp["shift"]))
            print("applied shift %r, estimated %r, re-alignment residual %.3g of the peak" % (
                inp["shift"], float(sc), float(np.max(np.abs(r - sp)) / np.max(np.abs(sp)))))
            return 1 if abs(float(sc) - inp["shift"]) > 0.05 or np.max(np.abs(r - sp)) > 0.02 * np.max(np.abs(sp)) else 0
        n = inp["n"]
        if kind == "light":
            pos = inp.get("impulses_at", [0])
            X = np.zeros((len(pos) + 1, n), dtype=DT[dt])
            for i, q in enumerate(pos):
                X[i, q] = 1
            X[-1] = inp.get("last_row", [0] * n)
            if "shift" in inp:
                return _cmp("fshift(X, %d) vs np.roll" % inp["shift"], fourier.fshift(X, inp["shift"]),
                            np.roll(X, inp["shift"], axis=-1), tol * 100)
            sv = np.array(inp["svec"], dtype=float)
            rc = _cmp("per-trace integer shifts vs rolls", fourier.fshift(X, sv),
                      np.stack([np.roll(X[i], int(sv[i])) for i in range(X.shape[0])]), tol * 100)
            return rc or _cmp("fshift(fshift(X,s),svec) vs fshift(X,s+svec)",
                              fourier.fshift(fourier.fshift(X, inp["s"]), sv), fourier.fshift(X, sv + inp["s"]),
                              tol * 100)
        eye = np.eye(n, dtype=DT[dt])
        if kind == "impulse_int":
            m, ax = inp["shift"], inp.get("axis", -1)
            sv = {"pyint": int(m), "float": float(m), "npint": np.int64(m)}[inp.get("shift_type", "pyint")]
            y = fourier.fshift(eye, sv, axis=ax)
            print("dtype/shape:", y.dtype, y.shape)
            return _cmp("fshift(I, %r, axis=%d) vs np.roll" % (sv, ax), y, np.roll(eye, int(m), axis=ax), tol) \
                or int(y.dtype != eye.dtype)
        if kind == "impulse_per_trace":
            sv, ax = np.array(inp["svec"], dtype=float), inp["axis"]
            y = fourier.fshift(eye, sv.astype(inp.get("shift_dtype", "float64")), axis=ax)
            exp = np.stack([np.roll(eye[i] if ax == 1 else eye[:, i], int(sv[i])) for i in range(n)], axis=0 if ax == 1 else 1)
            return _cmp("per-trace integer shifts along axis %d vs per-trace rolls" % ax, y, exp, tol)
        if kind == "compose":
            a, b = inp["s"], inp["t"]
            two, one = fourier.fshift(fourier.fshift(eye, a), b), fourier.fshift(eye, a + b)
            rc = _cmp("fshift(fshift(I,s),t) vs fshift(I,s+t)", two, one, tol)
            if n % 2 == 0 and a != math.floor(a) and b != math.floor(b):
                jj = np.arange(n)
                dfc = (math.cos(math.pi * a) * math.cos(math.pi * b) - math.cos(math.pi * (a + b))) / n
                pred = one.astype(float) + dfc * ((-1.0) ** jj)[None, :] * ((-1.0) ** jj)[:, None]
                rc2 = _cmp("... vs single shift + proved Nyquist defect (theorem C07_compose_nyquist_defect)", two, pred, tol)
                print("even n, both shifts non-integer: the difference is the known finding F-C07-a"
                      if rc2 == 0 else "the difference is NOT the proved defect")
            return rc
        if kind == "trig":
            t = np.arange(n, dtype=float)

            def trig(tt):
                return inp["dc"] + sum(a * np.cos(2 * np.pi * k * tt / n) + b * np.sin(2 * np.pi * k * tt / n)
                                       for k, a, b in zip(inp["harmonics"], inp["a"], inp["b"]))
            x = trig(t).astype(DT[dt])
            y = fourier.fshift(x, inp["shift"])
            return _cmp("fshift(trig polynomial, s) vs analytic delay", y, trig(t - inp["shift"]),
                        tol * max(1.0, float(np.max(np.abs(x)))))
        if kind == "nd3":
            arr = np.array(inp["x"], dtype=DT[dt]).reshape(inp["shape"])
            sv = inp["shift"]
            svv = np.array(sv, dtype=float) if isinstance(sv, list) else sv
            y = fourier.fshift(arr, svv, axis=inp["axis"])
            X3 = arr if inp["axis"] == -1 else np.swapaxes(arr, 1, 2)
            sl = np.broadcast_to(np.asarray(svv, dtype=float).reshape(2, 3) if isinstance(sv, list) else svv, (2, 3))
            ref = np.stack([np.stack([fourier.fshift(np.ascontiguousarray(X3[a, b]), float(sl[a, b])) for b in range(3)])
                            for a in range(2)])
            return _cmp("3-D fshift vs trace-by-trace 1-D fshift", y if inp["axis"] == -1 else np.swapaxes(y, 1, 2),
                        ref, tol * 100)
        if kind == "complex_entry":
            xr = np.array(inp["x"], dtype=float)
            return _cmp("irfft(fshift(rfft(x), s, ns=n)) vs fshift(x, s)",
                        scipy.fft.irfft(fourier.fshift(scipy.fft.rfft(xr), inp["shift"], ns=n), n),
                        fourier.fshift(xr, inp["shift"]), tol * 100)
    except Exception as e:  # noqa
        print("implementation raised:", repr(e))
        return 1
    print("no replay handler for this input kind")
    return 1
