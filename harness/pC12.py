"""C12 — LFP extraction of neuropixel.NP2Converter: proofs in coq/C12, correspondence and
measurements against the real converter on synthetic NP2.1 / NP2.4 recordings."""
import json
import logging
import re
import shutil
from pathlib import Path

import numpy as np
import scipy.signal

import common

PROP = "C12"
HEADER = "From Coq Require Import ZArith List.\nImport ListNotations.\nFrom IBL.C12 Require Import Run."
FLOCQ_AXIOMS = ["ClassicalDedekindReals.sig_forall_dec", "ClassicalDedekindReals.sig_not_dec",
                "FunctionalExtensionality.functional_extensionality_dep", "Classical_Prop.classic"]
TRUSTED = [
    "Coq 8.16.1 kernel + vm_compute (no native_compute); position/count/metadata theorems closed under the "
    "global context; the sync-cast theorem (Flocq binary32) uses the four standard-library real-number axioms",
    "hand-written model coq/C12/Model.v of the LF branch of neuropixel.NP2Converter (over coq/C17's "
    "WindowGenerator model), tied to /repo/src by this run's correspondence on the bytes and metadata of *.lf.bin",
    "numerical clauses (agreement with whole-trace sosfiltfilt + [::12] within 1 LSB away from the file edges, "
    "window-size independence within 1 LSB) are MEASURED on the implementation, not proved; the reference filter "
    "is scipy.signal.butter(2, 0.2, 'lowpass', output='sos') + sosfiltfilt computed by the harness in float64",
    "Reader.open: int(round(n / fs * fs)) == n for n < 2^50 (float64 round trip) is assumed in rd_open_ns",
    "harness/pC12.py generators (synthetic recordings built on the repository's NP2.1/NP2.4 fixture metadata), "
    "canonicaliser and oracle",
    "extraction (Require Extraction, ExtrOcamlBasic only), harness/driver.ml, ocamlfind ocamlopt; a sample of the "
    "same cases is re-evaluated by the kernel (vm_compute)",
]

RATIO, OVERLAP, TAPER = 12, 576, 144
EDGE = 2 * TAPER          # "away from the two file edges": more than 2*taper AP samples (what the code discards at seams)
LSB_BOUND = 1.0           # the property's stated bound
APNAME = "_spikeglx_ephysData_g0_t0.imec0.ap.bin"
UUID = "4f1e2a3b-5c6d-4e7f-8a9b-0c1d2e3f4a5b"      # a v4 UUID, the server naming spikeglx.Reader supports


def ap_name(rec):
    """file name of the AP binary as first written (flat)"""
    return (rec.get("stem") or APNAME[:-len(".ap.bin")]) + ".ap" + (("." + UUID) if rec.get("uuid") else "") + ".bin"


EXTREME_WORDS = [0x8000, 0x8001, 0x7FFF, 0xFFFF, 0x0000]     # int16 -32768, -32767, 32767, -1, 0


def sync_injections(rec):
    """{AP sample index: uint16 word}: the extreme sync words, each placed on the decimation grid of the
    conversion (indices = offset mod 12) and, as controls, off the grid.  Deterministic in the recording."""
    import random
    prng = random.Random((rec["seed"] * 2654435761 + 12345) % (2 ** 32))
    ns, n, off = rec["ns"], rec_n(rec), rec.get("offset") or 0
    n = max(0, min(n, ns - off))
    rows = cdiv(n, RATIO)
    inj = {}
    if rows <= 0:
        return inj
    grid = list(range(rows))
    prng.shuffle(grid)
    pick = grid[:min(rows, 2 * len(EXTREME_WORDS))]
    if 0 not in pick:
        pick[0] = 0                       # the very first sample carries 0x8000 in every recording
    for k, j in enumerate(pick):
        inj[off + RATIO * j] = EXTREME_WORDS[k % len(EXTREME_WORDS)]
    for k, j in enumerate(pick):          # controls: the same words off the grid
        q = off + RATIO * j + 1 + prng.randrange(RATIO - 1)
        if q < ns and q not in inj:
            inj[q] = EXTREME_WORDS[(k + 1) % len(EXTREME_WORDS)]
    return inj


def sync_column(rec):
    """int16 sync column of the AP file: a bijection of the sample index (so that an LF row reveals the AP sample it
    was taken at) with the extreme words injected on and off the decimation grid."""
    pos = np.arange(rec["ns"], dtype=np.int64)
    w = (rec["sync_off"] + rec["sync_mul"] * pos) % 65536
    for q, v in sync_injections(rec).items():
        w[q] = v
    return w.astype(np.uint16).view(np.int16)


def file_digest(path):
    import hashlib
    return hashlib.sha1(Path(path).read_bytes()).hexdigest()


def cdiv(a, b):
    return -((-a) // b)


# --------------------------------------------------------------------------
# synthetic recordings
# --------------------------------------------------------------------------
def fixture_meta(kind):
    p = common.REPO / "src" / "tests" / "fixtures" / "np2split" / (kind + "_meta") / APNAME.replace(".bin", ".meta")
    return p.read_text()


def shank_assignment(kind, variant, rng):
    """Shank of each of the 384 sites, or None to keep the fixture's map."""
    if variant == "fixture":
        return None
    if kind == "NP21":
        return None
    if variant == "uneven":       # three shanks of unequal size, interleaved blocks
        cuts = sorted(rng.sample(range(1, 384), 5))
        sh, out, prev = [0, 2, 1, 2, 0, 1], [], 0
        for c, s in zip(cuts + [384], sh):
            out += [s] * (c - prev)
            prev = c
        return out
    if variant == "scattered":    # every site drawn independently among 4 shanks (all present)
        out = [rng.randrange(4) for _ in range(384)]
        out[:4] = [0, 1, 2, 3]
        return out
    if variant == "tiny":         # one shank with a single site
        out = [1] * 384
        out[rng.randrange(384)] = 0
        return out
    raise ValueError(variant)


def fmt_float(x):
    s = "%.12f" % x
    return s.rstrip("0").rstrip(".") if "." in s else s


def make_content(rng, ns, content):
    """int16 [ns, 384] broadband, not constant in time, within the 14-bit range of NP2."""
    if content == "walk":
        x = np.cumsum(rng.integers(-60, 61, size=(ns, 384)), axis=0) + rng.integers(-400, 401, size=(ns, 384))
    elif content == "noise":
        x = rng.integers(-8191, 8192, size=(ns, 384))
    elif content == "impulses":
        x = rng.integers(-20, 21, size=(ns, 384))
        n = max(1, ns // 40)
        x[rng.integers(0, ns, size=n), rng.integers(0, 384, size=n)] += rng.choice([-7000, 7000], size=n)
        # impulses right at the seams of small windows and at the decimation phase
        for p in (0, 1, 11, 12, 143, 144, 287, 288, 299, 300, ns - 289, ns - 288, ns - 145, ns - 1):
            if 0 <= p < ns:
                x[p, rng.integers(0, 384, size=8)] += 6000
    elif content == "steps":
        lev = rng.integers(-5000, 5001, size=(cdiv(ns, 97) + 1, 384))
        x = np.repeat(lev, 97, axis=0)[rng.integers(0, 97):][:ns] + rng.integers(-30, 31, size=(ns, 384))
    elif content == "tones":
        t = np.arange(ns)[:, None]
        f = rng.uniform(0.0005, 0.45, size=(1, 384))
        x = 5000 * np.sin(2 * np.pi * f * t + rng.uniform(0, 6.28, size=(1, 384))) + rng.integers(-50, 51, size=(ns, 384))
    else:
        raise ValueError(content)
    return np.clip(np.rint(x), -8191, 8191).astype(np.int16)


def make_recording(root, rec):
    """Writes <root>/probe00/<ap.bin, ap.meta>; returns (ap path, int16 data [ns,385], shank list, meta dict)."""
    import random
    kind, ns = rec["kind"], rec["ns"]
    prng = random.Random(rec["seed"])
    rng = np.random.default_rng(rec["seed"])
    d = Path(root) / "probe00"
    d.mkdir(parents=True)
    ap = d / ap_name(rec)
    nap = rec.get("nap") or 384          # AP channels saved to disk (SpikeGLX "save channel subset": the first nap)
    x = make_content(rng, ns, rec["content"])[:, :nap]
    sy = sync_column(rec)
    dat = np.concatenate([x, sy[:, None]], axis=1)
    dat.tofile(ap)
    meta = fixture_meta(kind)
    fs = float(rec["fs"])
    meta = re.sub(r"fileSizeBytes=\d+", "fileSizeBytes=%d" % (ns * (nap + 1) * 2), meta)
    meta = re.sub(r"fileTimeSecs=\S+", "fileTimeSecs=" + fmt_float(ns / fs), meta)
    meta = re.sub(r"imSampRate=\S+", "imSampRate=" + rec["fs"], meta)
    sh = shank_assignment(kind, rec["shankmap"], prng)
    head, body = re.match(r"(.*snsShankMap=\([^)]*\))(.*)", meta, re.S).groups()
    line, rest = (body.split("\n", 1) + [""])[:2]
    entries = re.findall(r"\(\d+:\d+:\d+:\d+\)", line)
    assert len(entries) == 384
    if sh is not None:
        entries = ["(%d:%s" % (sh[i], e[1:].split(":", 1)[1]) for i, e in enumerate(entries)]
    meta = head + "".join(entries[:nap]) + "\n" + rest
    if rec.get("prb_type") is not None:
        meta = re.sub(r"imDatPrb_type=\d+", "imDatPrb_type=%d" % rec["prb_type"], meta)
    if nap != 384:
        # acqApLfSy keeps describing the 384 acquired channels; the sns* keys describe the file
        meta = re.sub(r"nSavedChans=\d+", "nSavedChans=%d" % (nap + 1), meta)
        meta = re.sub(r"snsApLfSy=\S+", "snsApLfSy=%d,0,1" % nap, meta)
        meta = re.sub(r"snsSaveChanSubset=\S+", "snsSaveChanSubset=0:%d,384" % (nap - 1), meta)
    ap.with_suffix(".meta").write_text(meta)
    if rec.get("ap_cbin"):
        # the state the converter itself leaves NP2.1 recordings in: X.ap.cbin + X.ap.ch + X.ap.meta
        import spikeglx
        sr = spikeglx.Reader(ap, sort=False)
        try:
            ap = Path(sr.compress_file(keep_original=False))
        finally:
            sr.close()
    return ap, dat


# --------------------------------------------------------------------------
# the implementation
# --------------------------------------------------------------------------
REC_KEYS = ("kind", "ns", "content", "shankmap", "fs", "seed", "sync_off", "sync_mul", "nshank",
            "reuse", "nsamples", "offset", "strpath", "floatw", "compress", "nap",
            "prb_type", "extra_none", "post_check", "no_assert_shanks", "overwrite_default", "ap_cbin", "uuid", "stem")


def rec_n(rec):
    """samples the window generator runs over: init_params(nsamples) or the whole file"""
    return rec.get("nsamples") or rec["ns"]


class ConversionTimeout(Exception):
    pass


def _alarm(signum, frame):
    raise ConversionTimeout("conversion did not finish within %d s" % CONVERSION_TIMEOUT)


CONVERSION_TIMEOUT = int(__import__("os").environ.get("C12_CONV_TIMEOUT", "90"))


def impl_convert(ap, W, extra, rec, state, iw=0):
    """impl_convert_inner under a wall-clock limit (an endless window loop must not hang the check)."""
    import signal
    old = signal.signal(signal.SIGALRM, _alarm)
    signal.alarm(CONVERSION_TIMEOUT)
    try:
        return impl_convert_inner(ap, W, extra, rec, state, iw)
    except ConversionTimeout as e:
        state.pop("conv", None)
        return {"files": [], "error": "ConversionTimeout: %s" % e}
    finally:
        signal.alarm(0)
        signal.signal(signal.SIGALRM, old)


def impl_convert_inner(ap, W, extra, rec, state, iw=0):
    """Runs the real NP2Converter on `ap` with window W.  Returns per-output-file observations read
    back from the bytes and metadata of the lf files, or {'error': ...}.  With rec['reuse'] the same
    converter object (state['conv']) is used for every window size of the group:
    process() -> init_params(...) -> process() ..."""
    import spikeglx
    from neuropixel import NP2Converter
    out = {"files": []}
    conv = state.get("conv") if rec.get("reuse") else None
    try:
        m = spikeglx.read_meta_data(Path(ap).with_suffix(".meta"))
        out["ap_meta"] = {"acq": [int(v) for v in m["acqApLfSy"]], "sns": [int(v) for v in m["snsApLfSy"]],
                          "nsaved": int(m["nSavedChans"]), "fsize": int(m["fileSizeBytes"]),
                          "rate": int(m["imSampRate"]),
                          "subset_hi": int(re.findall(r"\d+", str(m["snsSaveChanSubset"]))[-1]),
                          "fileTimeSecs": float(m["fileTimeSecs"])}
        cm = spikeglx._map_channels_from_meta(m)
        out["shanks"] = [int(s) for s in cm["shank"]]
        out["version"] = {"NP2.1": 21, "NP2.4": 24}.get(spikeglx._get_neuropixel_version_from_meta(m), 0)
        out["prb_type"] = int(m["imDatPrb_type"])
        out["ap_file_name"] = Path(ap).name
        if conv is None:
            conv = NP2Converter(str(ap) if rec.get("strpath") else ap, post_check=bool(rec.get("post_check")),
                                compress=bool(rec.get("compress")))
            if rec.get("reuse"):
                state["conv"] = conv
        nwindow = None if W == 60000 else (float(W) if rec.get("floatw") else W)
        if rec.get("extra_none") and iw == 0:
            extra = None
        conv.init_params(nsamples=rec.get("nsamples"), nwindow=nwindow, extra=extra, nshank=rec["nshank"])
        if rec.get("offset") is not None or rec.get("no_assert_shanks"):
            status = conv._process_NP21(overwrite=True, offset=rec.get("offset") or 0,
                                        assert_shanks=not rec.get("no_assert_shanks"))
        elif rec.get("overwrite_default") and iw == 0:
            status = conv.process()
        else:
            status = conv.process(overwrite=True)
        out["status"] = int(status)
        if out["status"] == -1:            # "Meta file is not of type NP2.1 or NP2.4, cannot process"
            return out
        for sh, info in conv.shank_info.items():
            f = Path(info["lf_file"])
            fo = {"sh": int(sh[5:]), "chns": [int(c) for c in info["chns"]], "path": str(f), "name": f.name}
            md = spikeglx.read_meta_data(f.with_suffix(".meta"))
            fo["meta"] = {"acq": [int(v) for v in md["acqApLfSy"]], "sns": [int(v) for v in md["snsApLfSy"]],
                          "nsaved": int(md["nSavedChans"]), "fsize": int(md["fileSizeBytes"]),
                          "rate": float(md["imSampRate"]),
                          "subset_hi": int(re.findall(r"\d+", str(md["snsSaveChanSubset"]))[-1]),
                          "subset_orig": decode_subset(md.get("snsSaveChanSubset_orig")),
                          "original_meta": str(md.get("original_meta")),
                          "shank_key": int(md.get("%s_shank" % conv.np_version, -1)),
                          "fileTimeSecs": float(md["fileTimeSecs"])}
            sr = spikeglx.Reader(f, sort=False)
            try:
                fo["reader"] = {"nc": int(sr.nc), "fs": float(sr.fs), "type": str(sr.type), "nsync": int(sr.nsync),
                                "ns": int(sr.ns), "shape": [int(v) for v in sr.shape],
                                "raw_shape": [int(v) for v in sr._raw.shape],
                                "fudged": float(sr.meta["fileTimeSecs"]) != fo["meta"]["fileTimeSecs"]}
                fo["raw"] = np.array(sr._raw[:, :])
                if fo["raw"].ndim != 2 or fo["raw"].dtype != np.int16:
                    raise TypeError("lf file does not read back as a 2-D int16 array (%s, %s)" % (fo["raw"].shape, fo["raw"].dtype))
            finally:
                sr.close()
            # bytes of the flat binary (a .lf.cbin holds the same int16 array compressed)
            fo["nbytes"] = f.stat().st_size if f.suffix == ".bin" else int(fo["raw"].size * 2)
            out["files"].append(fo)
    except ConversionTimeout:
        raise
    except Exception as e:      # noqa
        out["error"] = "%s: %s" % (type(e).__name__, str(e)[:200])
    finally:
        if conv is not None and not rec.get("reuse"):
            try:
                conv.sr.close()
            except Exception:
                pass
    return out


def decode_subset(s):
    if s is None:
        return []
    if isinstance(s, (int, float)):
        return [int(s)]
    if isinstance(s, list):
        return [int(v) for v in s]
    res = []
    for part in str(s).split(","):
        if ":" in part:
            a, b = part.split(":")
            res += list(range(int(a), int(b) + 1))
        else:
            res.append(int(part))
    return res


# --------------------------------------------------------------------------
# reference and oracle
# --------------------------------------------------------------------------
SOS = scipy.signal.butter(N=2, Wn=1000 / 2500 / 2, btype="lowpass", output="sos")


def reference(dat):
    """zero-phase low-pass of the whole AP trace (every sample), float64, in LSB."""
    x = dat[:, :-1].astype(np.float64)
    if x.shape[0] <= 9:          # shorter than sosfiltfilt's padding: no reference (and no interior)
        return np.zeros(x.shape)
    return scipy.signal.sosfiltfilt(SOS, x, axis=0)


def oracle_file(rec, W, dat, ref_full, fo, meas):
    """Property clauses on one output file; returns list of (clause, message).  The stream is derived
    from the AP samples [off, off + ns): the whole file unless nsamples / offset were given."""
    ns = rec_n(rec)
    off = rec.get("offset") or 0
    dat = dat[off:off + ns]
    ref = ref_full[off:off + ns:RATIO]
    bad = []
    nrows_expected = cdiv(ns, RATIO)
    chns = fo["chns"]
    raw = fo["raw"]
    nb = fo["nbytes"]
    # content shape actually written
    if nb % (2 * len(chns)) != 0:
        bad.append(("length", "file size %d is not a whole number of %d-channel rows" % (nb, len(chns))))
        return bad
    nrows = nb // (2 * len(chns))
    if nrows != nrows_expected:
        bad.append(("length", "LF file has %d samples, expected ceil(%d/12) = %d" % (nrows, ns, nrows_expected)))
    rd, md = fo["reader"], fo["meta"]
    if float(md["rate"]) != 2500.0 or float(rd["fs"]) != 2500.0:
        bad.append(("meta", "LF metadata declares %r Hz" % (md["rate"],)))
    if rd["nc"] != len(chns) or md["nsaved"] != len(chns):
        bad.append(("meta", "LF metadata declares %d channels, %d written per row" % (md["nsaved"], len(chns))))
    if rd["type"] != "lf":
        bad.append(("meta", "LF metadata is not recognised as an lf stream (%r)" % (rd["type"],)))
    if rd["shape"] != [nrows, len(chns)] or rd["raw_shape"] != [nrows, len(chns)] or \
            rd["shape"][0] * rd["shape"][1] * 2 != nb:
        bad.append(("meta", "file opens with shape %s but holds %d rows of %d" % (rd["shape"], nrows, len(chns))))
    if md["sns"][:2] != [0, len(chns) - rd["nsync"]] or md["acq"][:2] != [0, len(chns) - rd["nsync"]]:
        bad.append(("meta", "ApLfSy counts %s/%s do not match %d lf + %d sync channels" % (
            md["acq"], md["sns"], len(chns) - rd["nsync"], rd["nsync"])))
    if raw.shape != (nrows, len(chns)) or nrows != nrows_expected:
        return bad
    # sync: exactly every 12th AP sync word
    if not np.array_equal(raw[:, -1], dat[::RATIO, -1]):
        k = int(np.flatnonzero(raw[:, -1] != dat[::RATIO, -1])[0])
        bad.append(("sync", "LF sync word %d is %d, AP sync word %d is %d" % (
            k, int(raw[k, -1]), RATIO * k, int(dat[RATIO * k, -1]))))
    # values away from the two file edges: whole-trace low-pass + decimation within 1 LSB
    lo, hi = cdiv(EDGE, RATIO), (ns - EDGE - 1) // RATIO + 1     # rows with EDGE <= 12 m < ns - EDGE  (hi exclusive)
    if hi > lo:
        dev = np.abs(raw[lo:hi, :-1].astype(np.float64) - ref[lo:hi][:, chns[:-1]])
        mx = float(dev.max())
        meas["interior_max_abs_dev_lsb"] = max(meas.get("interior_max_abs_dev_lsb", 0.0), mx)
        meas["interior_rows_compared"] = meas.get("interior_rows_compared", 0) + int(hi - lo)
        if mx > LSB_BOUND:
            r, c = np.unravel_index(int(np.argmax(dev)), dev.shape)
            bad.append(("values", "LF sample %d channel %d differs from whole-trace low-pass + decimation by %.3f LSB"
                        % (lo + r, chns[c], mx)))
    # how far from the two file ends the stream deviates from the whole-trace reference by more than the
    # bound (the property allows this only "at the edges"): measured, bound EDGE/12 rows
    devall = np.abs(raw[:, :-1].astype(np.float64) - ref[:, chns[:-1]]).max(axis=1) > LSB_BOUND
    idx = np.flatnonzero(devall)
    if idx.size:
        half = nrows // 2
        head = int(idx[idx < half].max()) + 1 if (idx < half).any() else 0
        tail = nrows - int(idx[idx >= half].min()) if (idx >= half).any() else 0
        meas["edge_extent_rows_max"] = max(meas.get("edge_extent_rows_max", 0), head, tail)
    return bad


EPS_HYP = 1e-3     # LSB: the eps with which the value theorems are read; 0.5 (rounding) + eps + float32 noise < 1


def measure_locality(ctx, meas):
    """The hypothesis of C12_lf_values_within_eps, measured on scipy.signal.sosfiltfilt (float64): two chunks
    that agree on [p-144, p+144] and differ arbitrarily elsewhere (content, where they start and end, taper)
    give values at p that differ by at most eps.  Full-scale data (|x| <= 8191 LSB)."""
    rng = np.random.default_rng(ctx.rng.randrange(2 ** 31))
    ntr = 1500 if ctx.thorough() else 120
    taper = np.r_[0, scipy.signal.windows.cosine((TAPER - 1) * 2), 0]
    worst = {r: 0.0 for r in (TAPER, 72, 36, 24, 12)}

    def outside(kind, n):
        if kind == 0:
            return rng.integers(-8191, 8192, size=n).astype(np.float64)
        if kind == 1:
            return np.full(n, 8191.0)
        if kind == 2:
            return np.full(n, -8191.0)
        if kind == 3:
            return 8191.0 * (-1.0) ** np.arange(n)
        return 8191.0 * np.sign(np.sin(np.arange(n) * rng.uniform(0.01, 0.5)))

    for t in range(ntr):
        for radius in worst:
            core = outside(t % 5 if t % 2 else 0, 2 * radius + 1)
            vals = []
            for side in range(2):
                la = [0, 1, TAPER, int(rng.integers(0, 2000))][int(rng.integers(0, 4))]
                lb = [0, 1, TAPER, int(rng.integers(0, 2000))][int(rng.integers(0, 4))]
                chunk = np.r_[outside(int(rng.integers(0, 5)), la), core, outside(int(rng.integers(0, 5)), lb)]
                if side and la >= TAPER and lb >= TAPER and t % 3 == 0:     # tapered ends, as extract_lfp does
                    chunk[:TAPER] *= taper[:TAPER]
                    chunk[-TAPER:] *= taper[TAPER:]
                if chunk.size <= 9:
                    chunk = np.r_[chunk, np.zeros(10)]
                vals.append(scipy.signal.sosfiltfilt(SOS, chunk)[la + radius])
            worst[radius] = max(worst[radius], abs(vals[0] - vals[1]))
    meas["locality_eps_measured_lsb_radius_144"] = float(worst[TAPER])
    meas["locality_eps_hypothesis_lsb"] = EPS_HYP
    meas["locality_trials"] = ntr
    meas["locality_eps_by_radius_lsb"] = {str(r): float(v) for r, v in worst.items()}
    if worst[TAPER] > EPS_HYP:
        ctx.disagree("measured hypothesis of C12_lf_values_within_eps violated: sosfiltfilt output at p changes by %.3g LSB "
                     "with the data outside [p-144, p+144]" % worst[TAPER], {"kind": "locality", "W": 0})


# --------------------------------------------------------------------------
# encoding (same as coq/C12/Run.v)
# --------------------------------------------------------------------------
def sync_params(rec):
    return rec["sync_off"], rec["sync_mul"], pow(rec["sync_mul"], -1, 65536)


def decode_positions(rec, col):
    off, _, inv = sync_params(rec)
    w = col.astype(np.int64) & 0xFFFF
    r = ((w - off) * inv) % 65536            # AP position modulo 2^16, exact
    # recordings longer than 2^16 samples: the lap is taken nearest to 12*m (the residue mod 2^16 stays exact;
    # an error of a whole multiple of 65536 samples would show in the value comparison instead)
    exp = (rec.get("offset") or 0) + RATIO * np.arange(r.size, dtype=np.int64)
    r = r + 65536 * np.round((exp - r) / 65536.0).astype(np.int64)
    # rows expected at an index where an extreme word was injected: the word must be exactly that word
    inj = sync_injections(rec)
    for m in range(r.size):
        e = int(exp[m])
        if e in inj and int(w[m]) == inj[e]:
            r[m] = e
    return [int(v) for v in r]


def meta_ns_of(ap_meta):
    """int(np.round(fileTimeSecs * 2500)) as the Reader computes it before any correction."""
    return int(np.round(ap_meta["fileTimeSecs"] * 2500))


def with_cols(obs):
    files = obs.get("files") or []
    return 1 if files and "error" not in obs and all(fo.get("col_sources") is not None for fo in files) else 0


def enc_input(rec, W, obs, shs):
    am = obs["ap_meta"]
    nominal = 1 if (rec["fs"] == "30000" and rec["ns"] % 12 != 6) else 0      # tie: the float product decides
    nshank = [int(v) for v in (rec["nshank"] or [])]
    return [rec["ns"], rec.get("nsamples") or 0, rec.get("offset") or 0, 0 if W == 60000 else W, obs["prb_type"],
            meta_ns_of(am), nominal, with_cols(obs), 0 if rec.get("no_assert_shanks") else 1] + am["acq"] + am["sns"] + \
        [am["nsaved"], am["fsize"], am["rate"], am["subset_hi"], len(nshank)] + nshank + \
        [1 if obs.get("ap_file_name", "").endswith(".cbin") else 0, len(obs.get("ap_file_name", ""))] + \
        [ord(c) for c in obs.get("ap_file_name", "")] + obs["shanks"]


def enc_output(rec, obs):
    if "error" in obs:
        return [0]
    if obs.get("status") == -1:
        return [2]
    files = obs["files"]
    f0 = files[0]
    nrows = f0["nbytes"] // (2 * len(f0["chns"]))
    pos = decode_positions(rec, f0["raw"][:, -1]) if f0["raw"].ndim == 2 and f0["raw"].shape[1] else []
    out = [1, meta_ns_of(obs["ap_meta"]), nrows, len(pos)] + pos + [len(files)]
    for fo in files:
        md, rd = fo["meta"], fo["reader"]
        rate = md["rate"]
        out += [len(fo["chns"])] + fo["chns"]
        out += md["acq"] + md["sns"] + [md["nsaved"], md["fsize"], int(rate) if float(rate) == int(rate) else -1,
                                        md["subset_hi"]]
        out += [len(md["subset_orig"])] + md["subset_orig"]
        out += [0 if str(md["original_meta"]) == "False" else 1, int(md["shank_key"])]
        out += [fo["nbytes"], rd["nc"], int(rd["fs"]) if float(rd["fs"]) == int(rd["fs"]) else -1,
                1 if rd["type"] == "lf" else 0, rd["nsync"], rd["ns"], 1 if rd["fudged"] else 0]
        src = fo.get("col_sources") if with_cols(obs) else []
        out += [len(src)] + [v for kc in src for v in kc]
        nm = fo["name"][:-len(".cbin")] + ".bin" if fo["name"].endswith(".cbin") else fo["name"]   # compress=True
        out += [len(nm)] + [ord(c) for c in nm]
    return out


def observe_col_sources(rec, dat, ref_full, fo):
    """For every column of an lf file: (1, c) if it is the low-passed AP-file column c, (0, c) if it is column c of
    the AP file picked every 12th sample unfiltered; c is identified from the data (all AP-file columns are tried),
    (-1, -1) if neither.  Observed from the bytes of the lf file only."""
    n, off = rec_n(rec), rec.get("offset") or 0
    raw = fo["raw"]
    d = dat[off:off + n:RATIO]
    r = ref_full[off:off + n:RATIO]
    if raw.ndim != 2 or raw.shape[0] != d.shape[0] or raw.shape[0] == 0:
        return None
    lo, hi = cdiv(EDGE, RATIO), (n - EDGE - 1) // RATIO + 1
    res = []
    chns = fo["chns"]
    for i in range(raw.shape[1]):
        col = raw[:, i]
        hint = chns[i] if i < len(chns) and 0 <= chns[i] < d.shape[1] else None
        # the column the converter says it wrote is tried first (several AP columns can be indistinguishable
        # on a short interior); the decision is made on the data either way
        if hint is not None and np.array_equal(d[:, hint], col):
            res.append([0, int(hint)])
            continue
        picked = np.flatnonzero((d == col[:, None]).all(axis=0))
        if picked.size:
            res.append([0, int(picked[0])])
            continue
        if hi > lo:
            dev = np.abs(r[lo:hi] - col[lo:hi, None].astype(np.float64)).max(axis=0)
            c = hint if (hint is not None and hint < dev.size and dev[hint] <= LSB_BOUND) else int(np.argmin(dev))
            if dev[c] <= LSB_BOUND:
                res.append([1, int(c)])
                continue
        res.append([-1, -1])
    return res


# --------------------------------------------------------------------------
# generators
# --------------------------------------------------------------------------
WINDOWS = [588, 600, 612, 720, 1152, 1164, 1200, 1812, 2400, 3000, 6000, 60000]


def gen_recordings(ctx):
    rng = ctx.rng
    recs = []

    def rec(kind, ns, content, shankmap="fixture", fs="30000", windows=None, nshank=None, **opt):
        mul = rng.randrange(1, 65536, 2)
        r = {"kind": kind, "ns": ns, "content": content, "shankmap": shankmap, "fs": fs,
             "seed": rng.randrange(2 ** 31), "sync_off": rng.randrange(65536), "sync_mul": mul,
             "windows": windows, "nshank": nshank,
             "reuse": False, "nsamples": None, "offset": None, "strpath": False, "floatw": False, "compress": False,
             "nap": None, "prb_type": None, "extra_none": False, "post_check": False, "no_assert_shanks": False,
             "overwrite_default": False, "ap_cbin": False, "uuid": False, "stem": None}
        r.update(opt)
        recs.append(r)

    contents = ["walk", "noise", "impulses", "steps", "tones"]
    # (a) full-size groups: three window sizes each, lengths not multiples of 12 or of the window; every other
    #     group runs its three conversions on ONE converter object (process -> init_params -> process ...)
    big = [("NP24", "fixture"), ("NP21", "fixture"), ("NP24", "uneven"), ("NP24", "scattered"),
           ("NP21", "fixture"), ("NP24", "tiny")]
    nbig = 24 if ctx.thorough() else 7
    for i in range(nbig):
        kind, smap = big[i % len(big)]
        ns = rng.choice([rng.randrange(2500, 5000), rng.randrange(5000, 9000), rng.randrange(1300, 2500)])
        if ns % 12 == 0:
            ns += rng.randrange(1, 12)
        ws = rng.sample(WINDOWS[:-1], 3) if i % 3 else [rng.choice([588, 600, 612]), rng.choice([1200, 1812]), 60000]
        fs = "30000" if i % 2 == 0 else "29999.757983"
        extra_opt = {}
        if i == 0:
            extra_opt = {"post_check": True, "extra_none": True, "overwrite_default": True}
        if i == 1:
            extra_opt = {"prb_type": 1030, "overwrite_default": True}
        if i == 2:
            extra_opt = {"prb_type": 2013}
        if i == 3:
            extra_opt = {"nshank": [3, 1]}
        if i == 5:
            extra_opt = {"nshank": [1, 0], "extra_none": True}
        rec(kind, ns, contents[i % len(contents)], smap, fs, ws, reuse=(i % 2 == 1) or i == 0,
            strpath=(i % 3 == 1), floatw=(i % 4 == 2), **extra_opt)
    # (a') the default window (2 s) with a recording long enough for several windows
    #     (quick: saved with a 48-channel subset to keep the file small)
    rec("NP21", (190000 if ctx.thorough() else 61000) + rng.randrange(1, 12), "walk", "fixture", "29999.757983", [60000],
        nap=None if ctx.thorough() else 48)
    # (a'') compress=True: the stream ends up in .lf.cbin (read back through spikeglx / mtscomp)
    rec("NP21", rng.randrange(1500, 2500), "tones", "fixture", "30000", [1200], compress=True)
    rec("NP24", rng.randrange(1500, 2500), "walk", "uneven", "29999.757983", [612], compress=True)
    # (b) boundary lengths (small, cheap): around every constant of the code and the window seams
    bl = set()
    for w in (588, 600, 1200):
        s = w - OVERLAP
        for base in (1, 9, 12, 24, TAPER, 2 * TAPER, OVERLAP, w, w - 2 * TAPER, w + s, w + 2 * s, OVERLAP + s,
                     w + 5 * s, 2 * w):
            for dlt in (-1, 0, 1, 5, 6, 7, 11, 12, 13):
                if base + dlt >= 1:
                    bl.add((base + dlt, w))
    bl = sorted(bl)
    if not ctx.thorough():
        keep = [b for b in bl if b[0] in (1, 143, 144, 145, 287, 288, 289, 576, 577, 588, 589)]
        rest = [b for b in bl if b not in keep]
        bl = keep + rng.sample(rest, 24)
    bynsmall = {}
    for ns, w in bl:
        bynsmall.setdefault(ns, []).append(w)
    for i, (ns, ws) in enumerate(sorted(bynsmall.items())):
        kind = "NP21" if i % 3 else "NP24"
        rec(kind, ns, contents[i % len(contents)], "fixture", "30000" if i % 2 else "29999.757983", sorted(set(ws)),
            nshank=None if kind == "NP21" or i % 2 else [rng.randrange(4)], reuse=(i % 4 == 3))
    # (b') every residue of ns modulo 12 with floor(ns/12) of both parities, several windows and a single one
    for r in range(12):
        for par in (0, 1):
            q = 2 * rng.randrange(30, 60) + par
            rec("NP21" if (r + par) % 2 else "NP24", 12 * q + r, contents[(r + par) % len(contents)], "fixture",
                "30000" if r % 2 else "29999.757983", [588, 6000] if par == 0 or ctx.thorough() else [588],
                nshank=None if (r + par) % 2 else [rng.randrange(2)], reuse=bool(par),
                nap=None if ctx.thorough() or r % 3 == 0 else 96)
    # (b'') init_params(nsamples=n) and _process_NP21(offset=o): the stream is derived from AP samples [o, o+n)
    for i in range(8 if ctx.thorough() else 4):
        nsf = rng.randrange(2600, 4000)
        n = rng.randrange(1300, 2400)
        o = [0, 12, rng.randrange(1, 200), nsf - n][i % 4]
        rec("NP21", nsf, contents[i % len(contents)], "fixture", "30000", [rng.choice([588, 600]), 1200],
            nsamples=n, offset=o, reuse=(i % 2 == 1), no_assert_shanks=(i == 2))
    rec("NP24", rng.randrange(2600, 4000), "noise", "fixture", "30000", [600, 1812], nsamples=rng.randrange(1300, 2400))
    #      outside the domain (offset + n beyond the file: NumPy clips the last reads): model agreement only
    rec("NP21", 2000, "walk", "fixture", "30000", [600, 1200], nsamples=2000, offset=100)
    rec("NP21", 1500, "walk", "fixture", "30000", [588], nsamples=1500, offset=1400)
    # (b3) recordings saved with a channel subset (sns counts < acq counts): first nap AP channels + sync
    subs = [("NP21", 192, "fixture"), ("NP24", 192, "fixture"), ("NP21", rng.randrange(2, 384), "fixture"),
            ("NP24", rng.randrange(200, 384), "uneven")]
    for i, (kind, nap, smap) in enumerate(subs if ctx.thorough() else subs[:3]):
        ns = rng.randrange(1400, 2600)
        rec(kind, ns + (ns % 12 == 0), contents[(i + 1) % len(contents)], smap, "30000" if i % 2 else "29999.757983",
            [rng.choice([588, 612]), 1200], nap=nap, reuse=(i == 1))
    # (b5) AP streams given as .ap.cbin (+ .ch) -- the state the converter leaves NP2.1 files in -- and UUID names
    rec("NP21", rng.randrange(1300, 2300), "walk", "fixture", "30000", [600, 1200], ap_cbin=True, overwrite_default=True,
        nap=64)
    rec("NP21", rng.randrange(1300, 2300), "tones", "fixture", "29999.757983", [612], ap_cbin=True, uuid=True,
        stem="snapshot_g0_t0.imec0", overwrite_default=True, nap=64, reuse=True)
    rec("NP24", rng.randrange(1300, 2300), "noise", "fixture", "30000", [588], ap_cbin=True, nap=96, overwrite_default=True)
    rec("NP24", rng.randrange(1300, 2300), "steps", "fixture", "30000", [1200], uuid=True, stem="capture.imec0", nap=96)
    rec("NP21", rng.randrange(1300, 2300), "impulses", "fixture", "30000", [600], uuid=True, overwrite_default=True, nap=64)
    # (b4) probe types: not NP2 (status -1, nothing written); a 4-shank map declared NP2.1 (assert); a single-shank
    #      map declared NP2.4 (one shank folder); nshank subset with repeated conversions
    rec("NP21", rng.randrange(700, 1500), "walk", "fixture", "30000", [600], prb_type=0)
    rec("NP24", rng.randrange(700, 1500), "noise", "fixture", "30000", [600, 1200], prb_type=1100)
    rec("NP24", rng.randrange(700, 1500), "walk", "fixture", "30000", [600], prb_type=21)
    rec("NP21", rng.randrange(1300, 1900), "tones", "fixture", "30000", [612], prb_type=24)
    rec("NP24", rng.randrange(1300, 1900), "steps", "scattered", "29999.757983", [588, 1200], nshank=[2, 0, 3], reuse=True)
    # (c) inadmissible window sizes (assert in init_params)
    #     not a multiple of 12, or not longer than the 576-sample overlap
    for w in (590, 1201, 1199, 2405, 576, 564, 288, 12):
        rec("NP21" if w % 24 else "NP24", rng.randrange(700, 1500), "walk", "fixture", "30000", [w], nap=64)
    return recs


# --------------------------------------------------------------------------
# one group = one recording, several window sizes
# --------------------------------------------------------------------------
def run_group(ctx, rec, tmp, cases, meas, dist):
    logging.disable(logging.CRITICAL)
    root = Path(tmp) / ("g%d" % len(cases))
    state = {}
    try:
        ap, dat = make_recording(root, rec)
        ref = reference(dat)
        nsf, n, off = rec["ns"], rec_n(rec), rec.get("offset") or 0
        in_domain = off + n <= nsf
        outs = []
        for iw, W in enumerate(rec["windows"]):
            desc = {k: rec.get(k) for k in REC_KEYS}
            desc["W"] = W
            desc["run_index"] = iw if rec.get("reuse") else 0
            if rec.get("reuse"):
                desc["windows_before"] = rec["windows"][:iw]
            ap_dir = Path(ap).parent
            before = {q.name: file_digest(q) for q in sorted(ap_dir.iterdir()) if q.is_file() and ".lf." not in q.name} \
                if iw == 0 or not rec.get("reuse") or "ap_before" not in state else state["ap_before"]
            state["ap_before"] = before
            obs = impl_convert(ap, W, "_w%d" % iw, rec, state, iw)
            if not (rec.get("compress") and rec["kind"] == "NP21"):     # compress=True compresses an NP2.1 original itself
                after = {q.name: file_digest(q) for q in sorted(ap_dir.iterdir()) if q.is_file() and q.name in before}
                changed = sorted(k for k in before if after.get(k) != before[k])
                if changed:
                    ctx.fail("the conversion modified or removed the original file(s) %s" % changed, desc, {"kind": "ap_modified"})
            for fo in obs.get("files", []):
                if fo.get("name") in before and Path(fo["path"]).parent == ap_dir:
                    ctx.fail("the LF stream was written into %s, a file of the AP recording" % fo["name"], desc,
                             {"kind": "lf_aliases_ap"})
                elif ".lf." not in fo.get("name", ""):
                    ctx.fail("the LF output %r is not an *.lf.* file" % fo.get("name"), desc, {"kind": "lf_name"})
            admissible = W % RATIO == 0 and W > OVERLAP
            dist["conversions"] += 1
            dist[rec["kind"]] += 1
            dist["reused_converter_runs"] += 1 if (rec.get("reuse") and iw > 0) else 0
            if "error" in obs:
                dist["raised"] += 1
                if not admissible:
                    dist["inadmissible_window"] += 1
                    if not obs["error"].startswith("AssertionError"):
                        ctx.disagree("inadmissible window: expected the AssertionError of init_params, got " + obs["error"], desc)
                elif not in_domain:
                    pass
                elif obs.get("version") == 21 and len(set(obs.get("shanks") or [0])) != 1 and \
                        not rec.get("no_assert_shanks") and obs["error"].startswith("AssertionError"):
                    dist["np21_multishank_refused"] = dist.get("np21_multishank_refused", 0) + 1   # the converter's own assert
                elif n < TAPER:
                    ctx.fail("conversion raises on a recording shorter than the %d-sample taper (%s): no LFP stream "
                             "is produced" % (TAPER, obs["error"][:80]), desc, {"kind": "short_recording_raises"})
                else:
                    ctx.fail("conversion raised " + obs["error"], desc, {"kind": "exception"})
                if "ap_meta" not in obs or "shanks" not in obs:
                    continue
            elif obs.get("status") == -1:
                dist["not_np2_refused"] += 1          # outside the property: no stream is claimed for other probes
                if not admissible:
                    ctx.disagree("inadmissible window accepted", desc)
            else:
                if not admissible:
                    ctx.disagree("inadmissible window accepted", desc)
                if obs.get("status") != 1:
                    ctx.fail("process() returned %r without producing the stream" % (obs.get("status"),), desc, {"kind": "status"})
                if in_domain:
                    bad = []
                    for fo in obs["files"]:
                        try:
                            if n > 2 * EDGE + RATIO:      # an interior exists: columns can be identified from the data
                                fo["col_sources"] = observe_col_sources(rec, dat, ref, fo)
                            b = oracle_file(rec, W, dat, ref, fo, meas)
                        except Exception as e:      # noqa: whatever the converter left behind must not stop the check
                            fo["col_sources"] = None
                            b = [("unreadable", "output cannot be interpreted (%s: %s)" % (type(e).__name__, str(e)[:120]))]
                        bad += [(c, "shank %d: %s" % (fo["sh"], msg)) for c, msg in b]
                    if not obs["files"]:
                        bad.append(("length", "the conversion reported success but produced no lf file"))
                    for clause, msg in bad[:3]:
                        ctx.fail(msg, desc, {"kind": clause})
                    outs.append((W, obs))
                else:
                    dist["clipped_out_of_domain"] += 1
            shs = [fo["sh"] for fo in obs.get("files", [])] if "error" not in obs else []
            try:
                e_in, e_out = enc_input(rec, W, obs, [int(s) for s in shs]), enc_output(rec, obs)
            except Exception as e:      # noqa
                ctx.fail("output cannot be encoded (%s: %s)" % (type(e).__name__, str(e)[:120]), desc, {"kind": "unreadable"})
                continue
            cases.append({"desc": desc, "inp": e_in, "out": e_out,
                          "nwin": max(cdiv(n - W, W - OVERLAP), 0) + 1 if admissible else 0})
        # window-size independence (to 1 LSB), over the whole file
        for (Wa, oa), (Wb, ob) in zip(outs, outs[1:]):
            for fa, fb in zip(oa["files"], ob["files"]):
                if fa["raw"].shape != fb["raw"].shape:
                    continue        # already reported by the length clause
                if fa["raw"].size == 0:
                    continue
                d = np.abs(fa["raw"].astype(np.int32) - fb["raw"].astype(np.int32))
                mx = int(d.max())
                meas["window_pairs_compared"] = meas.get("window_pairs_compared", 0) + 1
                meas["window_dependence_max_lsb"] = max(meas.get("window_dependence_max_lsb", 0), mx)
                meas["window_dependence_samples_differing"] = meas.get("window_dependence_samples_differing", 0) + int((d > 0).sum())
                meas["window_dependence_samples_compared"] = meas.get("window_dependence_samples_compared", 0) + int(d.size)
                if mx > LSB_BOUND:
                    r, c = np.unravel_index(int(np.argmax(d)), d.shape)
                    desc = {k: rec.get(k) for k in REC_KEYS}
                    desc["W"] = Wa
                    desc["W_other"] = Wb
                    ctx.fail("LF sample %d column %d differs by %d LSB between window sizes %d and %d"
                             % (r, c, mx, Wa, Wb), desc, {"kind": "window_dependence"})
    finally:
        conv = state.get("conv")
        if conv is not None:
            try:
                conv.sr.close()
            except Exception:
                pass
        shutil.rmtree(root, ignore_errors=True)


NEW_DIST = {"conversions": 0, "NP21": 0, "NP24": 0, "raised": 0, "inadmissible_window": 0,
            "reused_converter_runs": 0, "clipped_out_of_domain": 0, "not_np2_refused": 0}


def run(ctx):
    common.proof_obligations(ctx, whitelist=FLOCQ_AXIOMS)
    recs = gen_recordings(ctx)
    cases, meas = [], {}
    dist = dict(NEW_DIST)
    tmp = common.tmpdir("C12_run_")
    import time
    t0 = time.time()
    ctx.coverage["wall_proofs_s"] = round(ctx.elapsed(), 1)
    try:
        for rec in recs:
            run_group(ctx, rec, tmp, cases, meas, dist)
    finally:
        shutil.rmtree(tmp, ignore_errors=True)
        logging.disable(logging.NOTSET)
    ctx.coverage["wall_conversions_s"] = round(time.time() - t0, 1)
    common.correspondence(ctx, PROP, HEADER, [c["inp"] for c in cases], [c["out"] for c in cases],
                          lambda i: cases[i]["desc"], n_kernel=16)
    measure_locality(ctx, meas)
    # measurements (not proofs): stated bound 1 LSB; the integer output is a rounding of the float result,
    # so the deviation from the float64 reference is at most 0.5 (rounding) + numerical error: record the
    # part above 0.5 against the remaining 0.5
    if "interior_max_abs_dev_lsb" in meas:
        meas["interior_excess_over_rounding_lsb"] = max(0.0, meas["interior_max_abs_dev_lsb"] - 0.5)
        meas["interior_excess_bound_lsb"] = LSB_BOUND - 0.5
        meas["interior_definition"] = "LF rows m with %d <= 12 m < ns - %d" % (EDGE, EDGE)
        meas["edge_extent_rows_bound"] = EDGE // RATIO
    ctx.measurements.update(meas)
    nontrivial = {(tuple(c["inp"][:5]), c["desc"]["seed"], c["desc"]["run_index"]) for c in cases if c["nwin"] > 1 and c["out"] != [0]}
    dist["multi_window"] = sum(1 for c in cases if c["nwin"] > 1)
    dist["single_window"] = sum(1 for c in cases if c["nwin"] == 1)
    dist["ns_not_multiple_of_12"] = sum(1 for c in cases if c["desc"]["ns"] % 12)
    dist["ns_min"] = min([c["desc"]["ns"] for c in cases] or [0])
    dist["ns_max"] = max([c["desc"]["ns"] for c in cases] or [0])
    dist["window_sizes"] = sorted({c["desc"]["W"] for c in cases})
    dist["contents"] = sorted({c["desc"]["content"] for c in cases})
    dist["shankmaps"] = sorted({c["desc"]["shankmap"] for c in cases})
    dist["ns_residues_mod_12"] = sorted({c["desc"]["ns"] % 12 for c in cases})
    dist["with_nsamples_or_offset"] = sum(1 for c in cases if c["desc"]["nsamples"] or c["desc"]["offset"] is not None)
    dist["saved_channel_subset"] = sum(1 for c in cases if c["desc"].get("nap"))
    dist["nshank_subsets"] = sum(1 for c in cases if c["desc"].get("nshank") and len(c["desc"]["nshank"]) > 1)
    dist["commercial_probe_types"] = sum(1 for c in cases if c["desc"].get("prb_type") in (1030, 2013))
    dist["post_check_true"] = sum(1 for c in cases if c["desc"].get("post_check"))
    dist["default_overwrite_and_extra"] = sum(1 for c in cases if c["desc"].get("overwrite_default") or c["desc"].get("extra_none"))
    dist["ap_given_as_cbin"] = sum(1 for c in cases if c["desc"].get("ap_cbin"))
    dist["uuid_names"] = sum(1 for c in cases if c["desc"].get("uuid"))
    dist["compress_true"] = sum(1 for c in cases if c["desc"]["compress"])
    dist["str_path"] = sum(1 for c in cases if c["desc"]["strpath"])
    dist["float_window"] = sum(1 for c in cases if c["desc"]["floatw"])
    samples = [dict(c["desc"], nwin=c["nwin"], lf_rows=(c["out"][2] if len(c["out"]) > 2 else None))
               for c in cases[:: max(1, len(cases) // 6)]]
    return common.finish(
        ctx, TRUSTED,
        rule="synthetic NP2.1/NP2.4 recordings (385 int16 channels; five broadband contents; sync column a "
             "bijective function of the sample index so that every LF row reveals the AP sample it was taken at; "
             "fixture and regenerated shank maps; nominal and measured sampling rate) are converted by the real "
             "NP2Converter with several window sizes each; the bytes and metadata of every *.lf.bin are read back "
             "and compared with the Coq model (row count, AP position of every row, channel lists, rewritten "
             "metadata, what spikeglx.Reader reports) and with the property's clauses (length, sync exactness, "
             "metadata/shape, whole-trace low-pass + decimation away from the edges, window independence); one "
             "evaluation = one conversion; non-trivial = more than one window and a stream produced; distinct by "
             "(ns, W, version, recording seed)",
        samples=samples, evaluations=len(cases), distinct_nontrivial=len(nontrivial),
        extra={"input_distribution": dist, "exhaustive": False},
        assumptions=["scipy.signal.sosfiltfilt/butter are external; their agreement between windowed and whole-trace "
                     "use is measured, not proved",
                     "float64 round trip n/fs*fs rounds back to n (Reader.ns after the size correction)"])


def replay(ctx, data):
    inp = data.get("input") or (data.get("correspondence_disagreements") or [{}])[0].get("input")
    if not inp or "W" not in inp:
        print(json.dumps(data, indent=1)[:3000])
        return 1
    rec = {k: inp.get(k) for k in REC_KEYS}
    rec["windows"] = list(inp.get("windows_before") or []) + [inp["W"]] + ([inp["W_other"]] if "W_other" in inp else [])
    sub = common.Ctx(PROP, ctx.tier, ctx.seed)
    cases, meas = [], {}
    dist = dict(NEW_DIST)
    tmp = common.tmpdir("C12_replay_")
    try:
        run_group(sub, rec, tmp, cases, meas, dist)
    finally:
        shutil.rmtree(tmp, ignore_errors=True)
    for c in cases:
        print("input:", c["desc"])
        print("implementation (flat, first 40):", c["out"][:40])
    print("measurements:", meas)
    print("property clauses failing on the implementation:", [f["what"] for f in sub.oracle_failures])
    ids = common.coq_mismatches(PROP, HEADER, [common.flat_cases_term(i, c["inp"], c["out"]) for i, c in enumerate(cases)])
    print("kernel-evaluated model agrees with implementation:", not ids)
    return 1 if (sub.oracle_failures or sub.disagreements or ids) else 0
