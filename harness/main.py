import argparse
import importlib
import json
import os
import sys
import traceback

import common


def main():
    ap = argparse.ArgumentParser()
    ap.add_argument("prop")
    ap.add_argument("--tier", default=os.environ.get("VERIF_TIER", "quick"),
                    choices=["quick", "thorough"])
    ap.add_argument("--replay", default=None)
    ap.add_argument("--seed", type=int, default=int(os.environ.get("VERIF_SEED", "20260926")))
    a = ap.parse_args()
    mod = importlib.import_module("p" + a.prop)
    ctx = common.Ctx(a.prop, a.tier, a.seed)
    if a.replay:
        data = json.load(open(a.replay))
        rc = mod.replay(ctx, data)
        sys.exit(rc)
    try:
        rc = mod.run(ctx)
    except Exception:
        # a crash of the machinery is not a verdict about the code: fail loudly, no VIOLATION line
        traceback.print_exc()
        print("CHECK-ERROR property=%s (harness crashed; no verdict)" % a.prop)
        sys.exit(2)
    sys.exit(rc)


if __name__ == "__main__":
    main()
