"""C19 — sync_timestamps: proofs in coq/C19, correspondence against ibldsp.utils.sync_timestamps,
property oracle (true pairs only / nearly all pairs / held-out error / drift) measured on random trains."""
import json
import math
import signal
import warnings

import numpy as np

import common

PROP = "C19"
HEADER = "From Coq Require Import ZArith List.\nImport ListNotations.\nFrom IBL.C19 Require Import Run."
TRUSTED = [
    "Coq 8.16.1 kernel + vm_compute (no native_compute); all C19 theorems: Closed under the global context",
    "hand-written model coq/C19/Model.v (exact rational arithmetic) of everything in ibldsp.utils.sync_timestamps after "
    "the coarse offset delta_t, tied to /repo/src by this run's correspondence (index arrays exactly; drift and fitted "
    "map within 1e-9 relative)",
    "the coarse offset delta_t (binned cross-correlation + parabolic_max) is NOT modelled: the harness records the value "
    "the implementation computed (wrapper around utils.parabolic_max, same float expression) and feeds it to the model; "
    "that it is close enough to the true offset is measured on random trains, not proved",
    "np.polyfit(x, y, 1) == closed-form least squares, scipy interp1d(linear, extrapolate) == two-point formula on the "
    "searchsorted segment: validated numerically by the correspondence, not proved",
    "float64 evaluation of |tsa[m]-delta_t-tsb[j]| < tbin agrees with exact arithmetic except within 2^-30 of a "
    "threshold/tie (such cases are detected by the model run and excluded from the exact index comparison; counted)",
    "harness/pC19.py generator, ground-truth labels, instrumentation (proxy for the module's `np`, wrapper for "
    "parabolic_max) and oracle",
    "extraction (ExtrOcamlBasic only), harness/driver.ml, ocamlfind ocamlopt; a sample of the same cases is "
    "re-evaluated by the kernel (vm_compute)",
]

CALL_LIMIT_S = 30          # one implementation call (unchanged code: milliseconds)
_TIMEOUTS = {"n": 0}


class _CallTimeout(BaseException):
    pass


class time_limit:
    """SIGALRM-based limit for one call of the implementation (pure Python/NumPy loops are interruptible)."""

    def __init__(self, seconds):
        self.seconds = seconds

    def _raise(self, signum, frame):
        raise _CallTimeout("call exceeded %d s" % self.seconds)

    def __enter__(self):
        self.old = signal.signal(signal.SIGALRM, self._raise)
        signal.setitimer(signal.ITIMER_REAL, self.seconds)

    def __exit__(self, *a):
        signal.setitimer(signal.ITIMER_REAL, 0)
        signal.signal(signal.SIGALRM, self.old)
        return False


PAR_DTYPES = [np.float64, np.float64, np.int64, np.float32, np.int32, np.float64, np.int16]
GRID = 2.0 ** -30          # all generated times are multiples of this (exact in float64 and < 2^62 as numerators)
SLOPE_SCALE = 10 ** 18
FCN_SCALE = 10 ** 12


# --------------------------------------------------------------------------
# encoding
# --------------------------------------------------------------------------
def to_dy(x):
    n, d = float(x).as_integer_ratio()
    return [n, d.bit_length() - 1]


def enc_qlist(xs):
    out = [len(xs)]
    for x in xs:
        out += to_dy(x)
    return out


def enc_input(case, delta):
    body = (to_dy(case["tbin"]) + to_dy(delta) +
            enc_qlist(case["tsa"]) + enc_qlist(case["tsb"]) + enc_qlist(case["queries"]))
    ks = [to_dy(v)[1] for v in [case["tbin"], delta] + case["tsa"] + case["tsb"] + case["queries"]]
    return [1 if case["linear"] else 0, max([0] + ks)] + body


def enc_input_full(case, n):
    body = to_dy(case["tbin"]) + enc_qlist(case["tsa"]) + enc_qlist(case["tsb"]) + enc_qlist(case["queries"])
    ks = [to_dy(v)[1] for v in [case["tbin"]] + case["tsa"] + case["tsb"] + case["queries"]]
    return [8, 1 if case["linear"] else 0, max([0] + ks), n] + body


def enc_input_coarse(case, n):
    body = to_dy(case["tbin"]) + enc_qlist(case["tsa"]) + enc_qlist(case["tsb"])
    ks = [to_dy(v)[1] for v in [case["tbin"]] + case["tsa"] + case["tsb"] + case["queries"]]
    return [9, max([0] + ks), n] + body


def model_side_cost(case, delta):
    """Second-pass cost the MODEL would face when fed `delta`: events its first pass leaves unassigned (float estimate)."""
    a = np.array(case["tsa"])[:, None] - delta
    near = np.abs(a - np.array(case["tsb"])[None, :]) < case["tbin"]
    nam = int((~near.any(axis=1)).sum())
    nbm = int((~near.any(axis=0)).sum())
    return nam * nbm * min(nam, nbm), nam


def parse_model_full(out, na, nq):
    """Decode mode 8 of coq/C19/Run.v: (coarse dict or None, rest as parse_model)."""
    if out == [2]:
        return {"index_error": True}, {"status": "bad", "raw": out}
    if len(out) < 6 or out[0] not in (0, 1):
        return None, {"status": "bad", "raw": out[:8]}
    co = {"delta": out[1] / 10 ** 15, "tie": out[2], "argmax": out[3], "max": out[4], "sum": out[5]}
    if out[0] == 0:
        return co, {"status": "singular"}
    return co, parse_model([1] + out[6:], na, nq)


def bins_float_vs_exact(case):
    """True when float64 floor((t - tmin)/tbin) equals the exact floor for every event (the model bins exactly)."""
    from fractions import Fraction
    tsa, tsb, tbin = np.array(case["tsa"]), np.array(case["tsb"]), case["tbin"]
    tmin = np.min([np.min(tsa), np.min(tsb)])
    ft = Fraction(tbin)
    for ts in (tsa, tsb):
        fb = np.floor((ts - tmin) / tbin)
        for t, b in zip(ts, fb):
            if (Fraction(float(t)) - Fraction(float(tmin))) / ft // 1 != int(b):
                return False
    return True


def parse_model(out, na, nq):
    """Decode coq/C19/Run.v `run` output."""
    if out == [0]:
        return {"status": "singular"}
    if not out or out[0] != 1:
        return {"status": "bad", "raw": out[:8]}
    p = 1
    assert out[p] == na, (out[:5], na)
    ib1 = out[p + 1:p + 1 + na]
    p += 1 + na
    assert out[p] == na
    ib = out[p + 1:p + 1 + na]
    p += 1 + na
    frag1, frag2, slope = out[p], out[p + 1], out[p + 2]
    p += 3
    assert out[p] == nq
    fq = out[p + 1:p + 1 + nq]
    return {"status": "ok", "ib1": ib1, "ib": ib, "frag1": frag1, "frag2": frag2, "slope": slope, "fq": fq}


# --------------------------------------------------------------------------
# instrumented run of the real function
# --------------------------------------------------------------------------
class _NpProxy:
    """Stands in for the `np` global of ibldsp.utils during one call: forwards everything to
    numpy, records the arguments that expose the state after the first matching pass."""

    def __init__(self, rec, na):
        self._rec, self._na = rec, na

    def __getattr__(self, name):
        return getattr(np, name)

    def polyfit(self, x, y, deg, *a, **k):
        self._rec["polyfit_calls"] = self._rec.get("polyfit_calls", 0) + 1
        return np.polyfit(x, y, deg, *a, **k)

    def where(self, *a, **k):
        r = self._rec
        try:
            if r.get("polyfit_calls", 0) == 1 and "miss_mask" not in r and len(a) == 1:
                m = np.asarray(a[0])
                if m.dtype == bool and m.shape == (self._na,):
                    r["miss_mask"] = m.copy()
        except Exception:      # noqa
            pass
        return np.where(*a, **k)

    def setxor1d(self, a, b, *aa, **k):
        r = self._rec
        try:
            if r.get("polyfit_calls", 0) == 1 and "used_b" not in r:
                r["used_b"] = np.array(b).copy()
        except Exception:      # noqa
            pass
        return np.setxor1d(a, b, *aa, **k)


def impl_run(case):
    """Returns dict(status, delta, ib1, ib, drift, fq) from the real sync_timestamps."""
    from ibldsp import utils
    tsa = np.array(case["tsa"], dtype=np.float64)
    tsb = np.array(case["tsb"], dtype=np.float64)
    if case.get("view"):          # non-contiguous views (stride 2 / negative-stride round trip): same values
        tsa = np.repeat(tsa, 2)[::2]
        tsb = tsb[::-1].copy()[::-1]
    tbin, linear, forced = case["tbin"], case["linear"], case.get("forced_rel")
    rec = {}
    orig_pm, orig_np = utils.parabolic_max, utils.np

    def pm(x):
        r = orig_pm(x)
        n = (np.shape(x)[-1] + 1) // 2
        ipeak = r[0] if forced is None else np.float64(n - 1 + forced)
        rec["ipeak"], rec["n"] = ipeak, n
        try:      # instrumentation must never disturb the call
            xf = np.asarray(x, dtype=np.float64)
            xr = np.rint(xf)
            rec["corr"] = {"exact": bool(np.all(xf == xr)), "noise": float(np.max(np.abs(xf - xr))) if xf.size else 0.0,
                           "argmax_rounded": int(np.argmax(xr)) if xf.size else -1,
                           "max": int(xr.max()) if xf.size else 0, "sum": int(xr.sum()),
                           "ties": int((xr == xr.max()).sum()) if xf.size else 0, "len": int(xf.shape[-1])}
        except Exception:      # noqa
            rec["corr"] = None
        return ipeak, r[1]

    res = {"status": "ok"}
    ret = None
    plain = "not run"
    if _TIMEOUTS["n"] >= 3:
        return {"status": "exc", "exc": "TimeoutError", "msg": "not run: three earlier calls exceeded the time limit"}
    try:
        utils.parabolic_max = pm
        utils.np = _NpProxy(rec, len(tsa))
        with warnings.catch_warnings(), time_limit(CALL_LIMIT_S):
            warnings.simplefilter("ignore")
            ret = utils.sync_timestamps(tsa, tsb, tbin=tbin, return_indices=True, linear=linear)
            fcn, drift, ia, ib = ret
            fq = fcn(np.array(case["queries"], dtype=np.float64))
            rec_main = dict(rec)
            if case.get("also_plain"):
                # the default return_indices=False path: (fcn, drift) only, same values as above
                try:
                    ret2 = utils.sync_timestamps(tsa, tsb, tbin, False, linear) if case.get("positional") else \
                        utils.sync_timestamps(tsa, tsb, tbin=tbin, linear=linear)
                    if not isinstance(ret2, tuple) or len(ret2) != 2:
                        plain = "returned %s of length %s" % (type(ret2).__name__, len(ret2) if hasattr(ret2, "__len__") else "?")
                    else:
                        fq2 = np.asarray(ret2[0](np.array(case["queries"], dtype=np.float64)))
                        same = np.array_equal(fq2, np.asarray(fq), equal_nan=True) and \
                            (ret2[1] == drift or (ret2[1] != ret2[1] and drift != drift))
                        plain = None if same else "drift %r vs %r, map values %s" % (ret2[1], drift, "equal" if np.array_equal(fq2, np.asarray(fq), equal_nan=True) else "differ")
                except _CallTimeout:
                    raise
                except Exception as e2:        # noqa
                    plain = "raised %s: %s" % (type(e2).__name__, str(e2)[:120])
                rec.clear()
                rec.update(rec_main)
    except BaseException as e:        # noqa  (whatever the implementation raises is an observation, not a harness crash)
        if isinstance(e, KeyboardInterrupt):
            raise
        if isinstance(e, _CallTimeout):
            _TIMEOUTS["n"] += 1
        res = {"status": "exc", "exc": "TimeoutError" if isinstance(e, _CallTimeout) else type(e).__name__,
               "msg": str(e)[:200]}
    finally:
        utils.parabolic_max, utils.np = orig_pm, orig_np
    if case.get("also_plain") and res["status"] == "ok":
        res["plain"] = plain
    # inputs must come back untouched (the model is a pure function)
    try:
        res["inputs_untouched"] = bool(np.array_equal(tsa, np.array(case["tsa"], dtype=np.float64)) and
                                       np.array_equal(tsb, np.array(case["tsb"], dtype=np.float64)))
    except Exception:      # noqa
        res["inputs_untouched"] = False
    try:
        if "ipeak" in rec:
            # same float expression as the source: (parabolic_max(...)[0] - x.shape[0] + 1) * tbin
            ipk = rec["ipeak"]
            if isinstance(ipk, (int, float, np.integer, np.floating)) and np.isfinite(ipk):
                res["delta"] = float((ipk - rec["n"] + 1) * tbin)
                res["n"], res["corr"] = int(rec["n"]), rec.get("corr")
        if "miss_mask" in rec and "used_b" in rec and int((~rec["miss_mask"]).sum()) == len(rec["used_b"]):
            ib1 = np.full(len(tsa), -1, dtype=np.int64)
            ib1[~rec["miss_mask"]] = rec["used_b"]
            res["ib1"] = [int(v) for v in ib1]
    except Exception:      # noqa  (instrumentation only)
        res.pop("ib1", None)
    if res["status"] == "ok":
        why = validate_return(drift, ia, ib, fq, len(tsa), len(tsb), len(case["queries"]))
        if why:
            res = dict(res, status="malformed", msg=why)
        else:
            full = np.full(len(tsa), -1, dtype=np.int64)
            full[ia] = ib
            res["ib"] = [int(v) for v in full]
            res["ia_sorted_unique"] = bool(np.all(np.diff(ia) > 0))
            res["drift"] = float(drift)
            res["fq"] = [float(v) for v in np.asarray(fq).ravel()]
    return res


def validate_return(drift, ia, ib, fq, na, nb, nq):
    """None when (drift, ia, ib, fcn(queries)) have the documented types/shapes, else a description."""
    try:
        for name, a, hi in (("ia", ia, na), ("ib", ib, nb)):
            if not isinstance(a, np.ndarray):
                return "%s is a %s, not a numpy array" % (name, type(a).__name__)
            if a.ndim != 1:
                return "%s has shape %s" % (name, a.shape)
            if not np.issubdtype(a.dtype, np.integer):
                return "%s has dtype %s" % (name, a.dtype)
            if a.size and (a.min() < 0 or a.max() >= hi):
                return "%s has an index outside [0, %d)" % (name, hi)
        if ia.shape != ib.shape:
            return "ia and ib have different lengths %s / %s" % (ia.shape, ib.shape)
        if isinstance(drift, (str, bytes, list, tuple, dict)) or np.ndim(drift) != 0 or \
                not np.issubdtype(np.asarray(drift).dtype, np.number) or np.iscomplexobj(drift):
            return "drift is %r" % (type(drift).__name__,)
        f = np.asarray(fq)
        if not isinstance(fq, np.ndarray) or f.shape != (nq,) or not np.issubdtype(f.dtype, np.floating):
            return "fcn(queries) is %s of shape %s dtype %s" % (type(fq).__name__, f.shape, f.dtype)
        return None
    except Exception as e:      # noqa
        return "return value cannot be inspected: %r" % (e,)


# --------------------------------------------------------------------------
# generators
# --------------------------------------------------------------------------
def q30(x):
    return round(x / GRID) * GRID


def gen_natural(rng, small=False, integer_span=False, flavour=None, light=False):
    """A train of the property's quantifier: 30..300 events, irregular spacing in [0.5, 10] s,
    drift in [-100, 100] ppm, offset up to minutes of either sign, 0..5 events missing on each side
    at any position, jitter up to 0.1 ms, both modes.  Ground truth labels kept."""
    n = rng.choice([30, 31, 50, 300]) if rng.random() < 0.15 else rng.randrange(30, 301)
    if light and rng.random() < 0.65:      # quick tier: most trains short (model cost grows with the square), a third long
        n = rng.randrange(30, 121)
    if small:
        n = rng.randrange(30, 61)
    lo, hi = rng.choice([(0.5, 10.0), (0.5, 10.0), (0.5, 1.0), (5.0, 10.0), (0.5, 3.0)])
    if flavour == "long_drift":        # the first pass misses the train's ends, the second pass has real work
        n, (lo, hi) = rng.randrange(270, 301), (7.0, 10.0)
    if flavour in ("long_drift_light", "long_drift_mid"):
        n, (lo, hi) = rng.randrange(270, 301), (7.0, 9.0)
    t0 = rng.choice([0.0, rng.uniform(0, 1000.0), rng.uniform(0, 20000.0)])
    t = t0 + np.cumsum([rng.uniform(lo, hi) for _ in range(n)])
    drift = rng.choice([0.0, 100.0, -100.0, rng.uniform(-100, 100), rng.uniform(-100, 100), rng.uniform(-20, 20)])
    off = rng.choice([0.0, rng.uniform(-1, 1), rng.uniform(-300, 300), rng.uniform(-300, 300), rng.uniform(-30, 30)])
    if flavour == "long_drift":
        drift = rng.choice([-1, 1]) * rng.choice([85.0, 100.0, rng.uniform(85, 100)])
    if flavour == "long_drift_mid":    # quick tier's one heavier train: ~15-18 % of the events left to the second pass
        drift = rng.choice([-1, 1]) * min(100.0, max(85.0, 1e6 * rng.uniform(0.235, 0.245) / (t[-1] - t[0])))
    if flavour == "long_drift_light":  # drift*span just above 2*tbin: ~10 % of the events left to the second pass (cheap model run)
        drift = rng.choice([-1, 1]) * min(100.0, max(85.0, 1e6 * rng.uniform(0.21, 0.24) / (t[-1] - t[0])))
    jmax = rng.choice([0.0, 1e-4, 1e-4, 1e-5, rng.uniform(0, 1e-4)])
    jit_a = rng.random() < 0.3
    ta = np.array([q30(v + (rng.uniform(-jmax, jmax) if jit_a else 0.0)) for v in t])
    tb = np.array([q30(v * (1 + drift * 1e-6) + off + rng.uniform(-jmax, jmax)) for v in t])
    ka, kb = rng.randrange(0, 6), rng.randrange(0, 6)
    pos = rng.random()
    if flavour in ("long_drift", "long_drift_light", "long_drift_mid"):        # missing events on both sides, different numbers: non-square candidate matrix
        ka = rng.randrange(1, 6)
        kb = rng.choice([k for k in range(1, 6) if k != ka])
        pos = rng.choice([0.1, 0.1, 0.3, 0.9])
    if flavour == "ends_missing":      # first / last events missing: held-out events outside the matched span
        ka, kb, pos = rng.randrange(2, 6), rng.randrange(2, 6), 0.1
    def pick(k):
        if pos < 0.2:      # at the ends
            c = list(range(0, 3)) + list(range(n - 3, n))
            return set(rng.sample(c, min(k, len(c))))
        if pos < 0.35:     # a run of consecutive events
            s = rng.randrange(0, n - k + 1)
            return set(range(s, s + k))
        return set(rng.sample(range(n), k))
    da, db = pick(ka), pick(kb)
    kind = "natural"
    if integer_span:
        # make max(tsa, tsb) - min(tsa, tsb) a whole number of seconds: move the last event (kept on both sides,
        # like the first) by less than a second on both clocks consistently with the true map
        kind = "integer_span"
        da -= {0, n - 1}
        db -= {0, n - 1}
        d = drift * 1e-6
        lo_t = min(ta[0], tb[0])
        b_last = tb[-1] >= ta[-1]
        cur = tb[-1] if b_last else ta[-1]
        s_up = lo_t + math.ceil(cur - lo_t) - cur
        gap = t[-1] - t[-2]
        sh = s_up if gap + s_up <= 10.0 else s_up - 1.0
        if b_last:
            tb[-1] = cur + sh
            ta[-1] = q30(ta[-1] + sh / (1 + d))
        else:
            ta[-1] = cur + sh
            tb[-1] = q30(tb[-1] + sh * (1 + d))
        span = max(ta[-1], tb[-1]) - lo_t
        if not float(span).is_integer() or min(ta[-1] - ta[-2], tb[-1] - tb[-2]) < 0.45:
            return gen_natural(rng, small=small, integer_span=True, flavour=flavour)     # rare: the later side flipped; draw again
    la = [i for i in range(n) if i not in da]
    lb = [i for i in range(n) if i not in db]
    linear = rng.random() < 0.5
    if flavour == "ends_missing":
        linear = rng.random() < 0.15
    held = sorted(da | db)
    queries = [float(ta[i]) for i in held] + [float(ta[0]), float(ta[-1]), float(q30((ta[0] + ta[-1]) / 2))]
    tbin = 0.1
    if flavour is None and n <= 60 and rng.random() < 0.5:      # the tbin parameter on (short) domain trains
        tbin = rng.choice([0.125, 0.2, 0.0625])
    return {"kind": kind, "flavour": flavour, "linear": linear, "tbin": tbin, "forced_rel": None,
            "tsa": [float(ta[i]) for i in la], "tsb": [float(tb[i]) for i in lb], "queries": queries,
            "truth": {"la": la, "lb": lb, "drift_ppm": drift, "offset": off, "jmax": jmax,
                      "jit_a": jit_a, "held": held, "n": n, "t_all": [float(v) for v in ta]}}


def gen_boundary(rng, free=False):
    """Tiny dense trains on a 1/64 s grid with a forced coarse offset: exercises every branch of
    both matching passes (single / several candidates, already-used partners, argmin, ties at the
    threshold, competition in the second pass).  Mostly outside the property's spacing domain."""
    g = 1.0 / 64
    tbin = rng.choice([0.125, 0.125, 0.25, 0.1])
    tg = tbin if tbin != 0.1 else 0.09375
    na = rng.randrange(2, 9)
    steps = [g, 2 * g, 4 * g, tg - g, tg, tg + g, 2 * tg - g, 2 * tg, 2 * tg + g, 3 * tg, 1.0, 2.5]
    wide = rng.random() < 0.35
    a = [rng.randrange(0, 640) * g]
    for _ in range(na - 1):
        a.append(a[-1] + (rng.choice([1.0, 2.5, 0.5, 0.75, 3 * tg + g]) if wide else rng.choice(steps)))
    rel = rng.choice([0, 0, 1, -1, 3, -7, 0.5, -2.25, 40, -123]) if tbin != 0.1 else rng.choice([0, 1, -3, 17])
    delta = rel * tbin
    off = rng.choice([0.0, 0.0, g, -g, 2 * g])
    perts = [0.0, 0.0, 0.0, g, -g, tg - g, -(tg - g), tg, -tg, tg + g, -(tg + g), 2 * g, -3 * g]
    b, lb = [], []
    for i, v in enumerate(a):
        r = rng.random()
        if r < 0.12:
            continue                                   # missing on b
        b.append(v - delta + off + rng.choice(perts))
        lb.append(i)
        if r > 0.88:
            b.append(b[-1] + rng.choice([g, 2 * g, tg, -g]))   # spurious extra b event
            lb.append(-1)
    for _ in range(rng.choice([0, 0, 1, 2])):
        b.append(rng.choice(a) - delta + rng.choice(perts + [0.5, -0.5, 1.25]))
        lb.append(-1)
    order = sorted(range(len(b)), key=lambda i: (b[i], i))
    if rng.random() < 0.15:
        rng.shuffle(order)                             # unsorted b side is accepted by the code
    b = [b[i] for i in order]
    lb = [lb[i] for i in order]
    if not b:
        b, lb = [a[0] - delta], [0]
    queries = [a[0], a[-1], (a[0] + a[-1]) / 2, a[0] - 1.0, a[-1] + 2.0]
    if free:
        # the coarse offset is left to the implementation (tiny exact correlations, frequent ties between lags)
        return {"kind": "boundary_free", "linear": rng.random() < 0.5, "tbin": tbin, "forced_rel": None,
                "tsa": [float(v) for v in a], "tsb": [float(v) for v in b], "queries": [float(v) for v in queries]}
    return {"kind": "boundary", "linear": rng.random() < 0.5, "tbin": tbin, "forced_rel": float(rel),
            "tsa": [float(v) for v in a], "tsb": [float(v) for v in b], "queries": [float(v) for v in queries],
            "exact_float_pass1": tbin != 0.1}


def gen_integer_span(rng):
    """An ordinary train of the domain whose total span tmax - tmin is a whole number of seconds (the histogram
    of the coarse-offset stage then has its last event exactly on a bin edge; IndexError before repo commit 36cb437)."""
    return gen_natural(rng, small=rng.random() < 0.5, integer_span=True)


def gen_parabolic(rng):
    """Integer-valued 1-D arrays (a cross-correlation of 0/1 histograms is integer-valued): short ones with
    ties / flat tops / maxima at either edge, sampled parabolas, and longer random ones."""
    k = rng.random()
    if k < 0.5:
        n = rng.randrange(1, 9)
        return [rng.randrange(0, 5) for _ in range(n)]
    if k < 0.75:
        n = rng.randrange(3, 40)
        h, a, m = rng.randrange(0, n), rng.randrange(1, 4), rng.randrange(0, 50)
        sh = rng.choice([0, 0, 1, 2])          # vertex between samples: (k - h)^2 + sh*(k - h)
        return [m - a * ((i - h) ** 2 + sh * (i - h)) for i in range(n)]
    n = rng.randrange(9, 200)
    return [rng.randrange(0, 30) for _ in range(n)]


def impl_parabolic_2d(rows, dtype=np.float64):
    """parabolic_max on a 2-D array: returns list of (ipeak, maxi) per row."""
    from ibldsp import utils
    if _TIMEOUTS["n"] >= 3:
        raise TimeoutError("not run: three earlier calls exceeded the time limit")
    arr = np.array(rows, dtype=dtype)
    try:
        with warnings.catch_warnings(), time_limit(CALL_LIMIT_S):
            warnings.simplefilter("ignore")
            r = utils.parabolic_max(arr)
    except _CallTimeout as e:
        _TIMEOUTS["n"] += 1
        raise TimeoutError(str(e))
    if not np.array_equal(arr, np.array(rows, dtype=dtype)):
        raise ValueError("parabolic_max modified its input")
    if not isinstance(r, tuple) or len(r) != 2:
        raise ValueError("parabolic_max returned %s instead of a pair" % (type(r).__name__,))
    ip, mx = np.asarray(r[0], dtype=np.float64), np.asarray(r[1], dtype=np.float64)
    if ip.shape != (len(rows),) or mx.shape != (len(rows),):
        raise ValueError("parabolic_max on a %s array returned shapes %s / %s" % (arr.shape, ip.shape, mx.shape))
    return [(float(a), float(b)) for a, b in zip(ip, mx)]


def impl_parabolic(xs, dtype=np.float64):
    from ibldsp import utils
    if _TIMEOUTS["n"] >= 3:
        raise TimeoutError("not run: three earlier calls exceeded the time limit")
    arr = np.array(xs, dtype=dtype)
    try:
        with warnings.catch_warnings(), time_limit(CALL_LIMIT_S):
            warnings.simplefilter("ignore")
            r = utils.parabolic_max(arr)
    except _CallTimeout as e:
        _TIMEOUTS["n"] += 1
        raise TimeoutError(str(e))
    if not np.array_equal(arr, np.array(xs, dtype=dtype)):
        raise ValueError("parabolic_max modified its input")
    if not isinstance(r, tuple) or len(r) != 2 or any(np.ndim(v) != 0 or isinstance(v, (str, bytes)) for v in r):
        raise ValueError("parabolic_max returned %s instead of two scalars" % (type(r).__name__,))
    ip, mx = r
    return float(ip), float(mx)


def span_is_integer(case):
    lo = min(min(case["tsa"]), min(case["tsb"]))
    hi = max(max(case["tsa"]), max(case["tsb"]))
    return float(hi - lo).is_integer()


# --------------------------------------------------------------------------
# property oracle on the implementation's outputs (natural trains only)
# --------------------------------------------------------------------------
RECALL_MIN = 0.95           # "nearly all true correspondences are returned"
HELD_TOL = 2e-3             # "millisecond-scale tolerance" at held-out events (interpolated, inside the matched range)


def oracle(case, res, meas):
    """Returns list of (what, tags)."""
    tr = case["truth"]
    la, lb = tr["la"], tr["lb"]
    bad = []
    ib = res["ib"]
    pairs = [(m, j) for m, j in enumerate(ib) if j >= 0]
    wrong = [(m, j) for m, j in pairs if not (0 <= j < len(lb)) or la[m] != lb[j]]
    if wrong:
        bad.append(("returned index pair (ia=%d, ib=%d) is not a true correspondence (%d wrong of %d)"
                    % (wrong[0][0], wrong[0][1], len(wrong), len(pairs)), {"kind": "false_pair"}))
    js = [j for _, j in pairs]
    if len(set(js)) != len(js):
        bad.append(("an event of the second series is paired twice", {"kind": "paired_twice"}))
    if not res["ia_sorted_unique"]:
        bad.append(("returned ia is not strictly increasing", {"kind": "ia_order"}))
    slb = set(lb)
    ntrue = sum(1 for k in la if k in slb)
    nfound = len(pairs) - len(wrong)
    recall = nfound / ntrue if ntrue else 1.0
    meas["min_recall"] = min(meas.get("min_recall", 1.0), recall)
    meas["trains_with_full_recall"] = meas.get("trains_with_full_recall", 0) + (nfound == ntrue)
    if recall < RECALL_MIN:
        bad.append(("only %d of %d true correspondences returned" % (nfound, ntrue), {"kind": "low_recall"}))
    if wrong:
        return bad
    # drift: least squares on true pairs with residuals bounded by J obeys |slope error| <= J / SD(x)
    d, off, jm = tr["drift_ppm"] * 1e-6, tr["offset"], tr["jmax"]
    J = jm * (1 + (1 + abs(d)) * (1 if tr["jit_a"] else 0)) + 4 * GRID
    xs = np.array([case["tsa"][m] for m, _ in pairs])
    sd = float(np.std(xs))
    bound_ppm = 1e6 * J / sd + 1e-3
    err_ppm = abs(res["drift"] - tr["drift_ppm"])
    meas["max_drift_err_ppm"] = max(meas.get("max_drift_err_ppm", 0.0), err_ppm)
    meas["max_drift_err_over_bound"] = max(meas.get("max_drift_err_over_bound", 0.0), err_ppm / bound_ppm)
    if not err_ppm <= bound_ppm:
        bad.append(("reported drift %.6f ppm differs from the true drift %.6f ppm by more than the jitter allows (%.4g ppm)"
                    % (res["drift"], tr["drift_ppm"], bound_ppm), {"kind": "drift"}))
    # held-out events: those removed from either side; error against the jitter-free true map
    nh = len(tr["held"])
    fa = res["fq"]
    xs_sorted = np.sort(xs)
    lo_x, hi_x = xs_sorted[0], xs_sorted[-1]
    key = "linear" if case["linear"] else "interp"

    def tol_at(x):
        """(inside?, tolerance).  Inside the matched span and for the linear map: HELD_TOL.  Interpolating mode
        outside the span: the extrapolating line goes through the two outermost matched pairs, each within J of
        the true map, hence is within J*(1 + 2*dist/gap) of it (rigorous for true pairs) — never the clamped value."""
        if lo_x <= x <= hi_x:
            return True, HELD_TOL
        if case["linear"]:
            return False, HELD_TOL
        if x < lo_x:
            dist, gap = lo_x - x, xs_sorted[1] - xs_sorted[0]
        else:
            dist, gap = x - hi_x, xs_sorted[-1] - xs_sorted[-2]
        return False, J * (1 + 2 * dist / gap) + 1e-9 * (1 + abs(x))

    for i in range(len(fa)):
        x = case["queries"][i]
        err = abs(fa[i] - (x * (1 + d) + off))
        inside, tol = tol_at(x)
        what = "heldout" if i < nh else "train_ends_and_middle"
        mk = "max_%s_err_s_%s_%s" % (what, key, "inside" if inside else "extrapolated")
        meas[mk] = max(meas.get(mk, 0.0), err)
        if not inside and not case["linear"]:
            meas["n_interp_extrapolated_points"] = meas.get("n_interp_extrapolated_points", 0) + 1
            meas["max_interp_extrapolation_err_over_bound"] = max(meas.get("max_interp_extrapolation_err_over_bound", 0.0), err / tol)
        if not err <= tol:       # also catches NaN
            bad.append(("fitted map is off by %.3g s (allowed %.3g s) at %s t=%.6f"
                        % (err, tol, "the held-out event" if i < nh else "the point", x),
                        {"kind": "heldout" if i < nh else "map_error"}))
            break
    return bad


# --------------------------------------------------------------------------
# model vs implementation
# --------------------------------------------------------------------------
def compare(case, res, mod):
    """Returns (list of disagreement strings, substituted implementation output for the kernel re-check,
    flags).  Index arrays exactly (unless the model reports a comparison within 2^-30 of a threshold);
    slope and map values within 1e-9 relative."""
    dis, flags = [], {}
    na, nq = len(case["tsa"]), len(case["queries"])
    if mod["status"] == "bad":
        return ["model output undecodable %s" % mod["raw"]], None, flags
    if mod["status"] == "singular":
        flags["singular"] = True
        # fewer than two distinct matched abscissae: numpy raises or warns; outside the domain, nothing compared
        return dis, [0], flags
    if res["status"] != "ok":
        return ["implementation %s (%s) where the model returns a result"
                % ("raised " + str(res.get("exc")) if res["status"] == "exc" else "returned a malformed result", res.get("msg"))], None, flags
    exact1 = case.get("exact_float_pass1", False)
    skip1 = bool(mod["frag1"]) and not exact1
    skip2 = skip1 or bool(mod["frag2"])
    flags["skip1"], flags["skip2"] = skip1, skip2
    ib1_impl = res.get("ib1")
    flags["ib1_observed"] = ib1_impl is not None
    if ib1_impl is not None and not skip1 and ib1_impl != mod["ib1"]:
        k = next(i for i in range(na) if ib1_impl[i] != mod["ib1"][i])
        dis.append("first pass differs at tsa index %d: model ib=%d, implementation ib=%d" % (k, mod["ib1"][k], ib1_impl[k]))
    if not skip2 and res["ib"] != mod["ib"]:
        k = next(i for i in range(na) if res["ib"][i] != mod["ib"][i])
        dis.append("final pairing differs at tsa index %d: model ib=%d, implementation ib=%d" % (k, mod["ib"][k], res["ib"][k]))
    same_pairs = res["ib"] == mod["ib"]
    if same_pairs:
        s_mod, s_imp = mod["slope"] / SLOPE_SCALE, res["drift"] * 1e-6
        if abs(mod["slope"]) < 2 ** 61 and not abs(s_mod - s_imp) <= 1e-12 + 1e-9 * abs(s_mod):
            dis.append("slope differs: model %.15g, implementation %.15g" % (s_mod, s_imp))
        for i in range(nq):
            f_mod = mod["fq"][i] / FCN_SCALE
            if abs(mod["fq"][i]) < 2 ** 61 and not abs(f_mod - res["fq"][i]) <= 1e-9 * (1 + abs(f_mod)) + 2e-12:
                dis.append("fitted map differs at query %d (x=%r): model %.12f, implementation %.12f"
                           % (i, case["queries"][i], f_mod, res["fq"][i]))
                break
    # output list for the kernel re-evaluation of `run`: the model's own output (already compared above)
    return dis, None, flags


def model_out_flat(mod_raw):
    return mod_raw


def run(ctx):
    common.proof_obligations(ctx, whitelist=[])
    rng = ctx.rng
    thorough = ctx.thorough()
    n_nat = 1600 if thorough else 80
    n_bnd = 12000 if thorough else 1500
    n_int = 150 if thorough else 15
    n_long = 45 if thorough else 1
    n_ends = 150 if thorough else 15
    cases = [gen_natural(rng, light=not thorough) for _ in range(n_nat)] + [gen_boundary(rng) for _ in range(n_bnd)] + \
            [gen_integer_span(rng) for _ in range(n_int)] + \
            [gen_boundary(rng, free=True) for _ in range(n_bnd // 3)] + \
            [gen_natural(rng, flavour="long_drift" if thorough else "long_drift_mid") for _ in range(n_long)] + \
            [gen_natural(rng, flavour="long_drift_light") for _ in range(40 if thorough else 5)] + \
            [gen_natural(rng, flavour="ends_missing", small=rng.random() < 0.5) for _ in range(n_ends)]
    for c in cases:
        dom = c["kind"] in ("natural", "integer_span")
        c["also_plain"] = dom or rng.random() < 0.15
        c["positional"] = rng.random() < 0.3
        c["view"] = rng.random() < 0.12
    meas = {}
    dist = {"natural": 0, "boundary": 0, "boundary_free": 0, "integer_span": 0, "coarse_offset_compared": 0,
            "coarse_offset_skipped_tie_under_fft": 0, "coarse_offset_skipped_bin_rounding": 0,
            "correlation_stats_compared": 0, "correlation_fft_noise_max": 0.0, "linear": 0, "interp": 0, "impl_exceptions": 0,
            "model_singular": 0, "first_pass_observed": 0, "index_compare_skipped_near_threshold": 0,
            "second_pass_compare_skipped_near_threshold": 0, "second_pass_assigned_something": 0,
            "model_skipped_huge_second_pass": 0, "events_min": 10 ** 9, "events_max": 0}
    inputs, keep, results, pending = [], [], [], []
    # the model's second pass is cubic in the number of events the first pass leaves unassigned; unchanged code needs
    # < 1e6 (quick) / < 2e7 (thorough) in total, a broken first pass would need hours
    cost_total, cost_budget = 0, (60_000_000 if thorough else 1_500_000)
    nontrivial = set()
    for ci, case in enumerate(cases):
        res = impl_run(case)
        dist[case["kind"]] += 1
        if case.get("flavour"):
            dist[case["flavour"]] = dist.get(case["flavour"], 0) + 1
        dist["linear" if case["linear"] else "interp"] += 1
        dist["events_min"] = min(dist["events_min"], len(case["tsa"]))
        dist["events_max"] = max(dist["events_max"], len(case["tsa"]))
        if res["status"] == "exc":
            dist["impl_exceptions"] += 1
        domain = case["kind"] in ("natural", "integer_span")
        report = ctx.fail if domain else ctx.disagree
        if not res.get("inputs_untouched", True):
            report("sync_timestamps modified its input arrays", slim(case), {"kind": "input_modified"})
            continue
        if res.get("plain"):
            report("sync_timestamps(..., return_indices=False) differs from the return_indices=True call: %s" % res["plain"],
                   slim(case), {"kind": "return_indices_false"})
        dist["plain_calls"] = dist.get("plain_calls", 0) + ("plain" in res)
        dist["view_inputs"] = dist.get("view_inputs", 0) + bool(case.get("view"))
        if res["status"] == "malformed":
            dist["impl_malformed_returns"] = dist.get("impl_malformed_returns", 0) + 1
            report("sync_timestamps returned a malformed result: %s" % res.get("msg"), slim(case), {"kind": "malformed"})
            continue
        if domain:
            # the property: the call succeeds on every train of the domain and its outputs satisfy the oracle
            if res["status"] == "exc":
                ctx.fail("sync_timestamps raised %s: %s" % (res["exc"], res.get("msg")), slim(case),
                         {"kind": "exception", "exc": res["exc"], "integer_span": span_is_integer(case)})
            elif case["tbin"] == 0.1:
                for what, tags in oracle(case, res, meas):
                    ctx.fail(what, slim(case), tags)
            else:
                # non-default tbin: outside the property (it speaks about the default procedure).  With a wider bin the
                # true pairs straddle two lags and, on near-regular trains, a lag one event off can collect more bin
                # coincidences: the function then pairs everything one event off.  That is what the algorithm does (the
                # unique-peak hypothesis of C19_coarse_offset_within_half_bin fails); model and implementation are still
                # compared exactly below.  Counted, not judged.
                dist["nondefault_tbin_trains"] = dist.get("nondefault_tbin_trains", 0) + 1
                if oracle(case, res, {}):
                    k = "nondefault_tbin_trains_failing_ground_truth_tbin_%s" % case["tbin"]
                    dist[k] = dist.get(k, 0) + 1
        if "delta" not in res:
            if case["kind"].startswith("boundary") and res["status"] == "exc":
                continue          # raised before the offset was computed (degenerate sizes): nothing to compare
            if not case["kind"].startswith("boundary") and res["status"] == "exc":
                continue          # already reported above
            ctx.disagree("coarse offset not observable (parabolic_max not called)", slim(case))
            continue
        if case["kind"] in ("natural", "integer_span") and res["status"] == "ok":
            tr = case["truth"]
            dres = abs(res["delta"] + tr["offset"] + tr["drift_ppm"] * 1e-6 * 0.5 * (case["tsa"][0] + case["tsa"][-1]))
            meas["max_coarse_offset_error_s"] = max(meas.get("max_coarse_offset_error_s", 0.0), dres)
        if res.get("ib1") is not None:
            # the model's second pass rescans the whole candidate matrix at every iteration (as the source does):
            # keep its cost bounded when a first pass leaves very many events unassigned
            nam = sum(1 for j in res["ib1"] if j < 0)
            nbm = len(case["tsb"]) - len({j for j in res["ib1"] if j >= 0})
            cost = nam * nbm * min(nam, nbm)
            meas["max_second_pass_matrix_cost"] = max(meas.get("max_second_pass_matrix_cost", 0), cost)
            cost_total += cost
            if cost > 2_000_000 or (cost > 20_000 and cost_total > cost_budget):
                cost_total -= cost
                dist["model_skipped_huge_second_pass"] += 1
                continue
        pending.append((ci, res))
    if dist["model_skipped_huge_second_pass"] > max(2, len(cases) // 100):
        ctx.disagree("the first pass left so many events unassigned on %d trains that the model comparison was skipped; "
                     "the unchanged code never does on these generators" % dist["model_skipped_huge_second_pass"],
                     {"kind": "skipped"}, {"kind": "skipped"})
    ctx.measurements.setdefault('phase_s', {})['T_impl'] = round(ctx.elapsed(), 1)
    ext = common.Extracted(PROP)
    # stage B: the whole function incl. the coarse offset (histogram length n observed), for every case whose offset
    # was not forced.  Conclusive when the model's delta_t equals the implementation's; then everything downstream is
    # compared from this run.  Otherwise (tie between lags under an FFT correlation, float-vs-exact binning) the case
    # falls back to stage A (model fed the implementation's delta_t).
    freeb = [(ci, res) for ci, res in pending if cases[ci].get("forced_rel") is None and res.get("corr")]
    # B1: the coarse offset alone (cheap); B2: the whole function, only where the model's delta_t agrees with the
    # implementation's — a disagreeing offset would send the model into an arbitrarily expensive second pass
    cin = [enc_input_coarse(cases[ci], res["n"]) for ci, res in freeb]
    cout = ext.run_many(cin, nproc=min(6, max(1, len(cin) // 30))) if cin else []
    ctx.measurements.setdefault('phase_s', {})['T_stageB1_coarse'] = round(ctx.elapsed(), 1)
    agree = [len(o) == 6 and o[0] == 1 and abs(o[1] / 10 ** 15 - res["delta"]) <= 1e-10 for (ci, res), o in zip(freeb, cout)]
    # B2 (whole function in one model run, `sync_full`) on the short trains; longer trains continue in stage A with the
    # implementation's delta_t, which B1 has just shown to be the model's own (no second cross-correlation needed)
    fin = [enc_input_full(cases[ci], res["n"]) if ok and len(cases[ci]["tsa"]) <= 40 else None
           for (ci, res), ok in zip(freeb, agree)]
    fsel = [f for f in fin if f is not None]
    fres = ext.run_many(fsel, nproc=min(6, max(1, len(fsel) // 30))) if fsel else []
    it = iter(fres)
    fout = [next(it) if f is not None else ([2] if o == [2] else ([0] + o[1:] if len(o) == 6 else o))
            for f, o in zip(fin, cout)]
    ctx.measurements.setdefault('phase_s', {})['T_stageB_model'] = round(ctx.elapsed(), 1)
    conclusive = {}
    for (ci, res), fi, fo in zip(freeb, fin, fout):
        case = cases[ci]
        co, mod = parse_model_full(fo, len(case["tsa"]), len(case["queries"]))
        if co is None or co.get("index_error"):
            ctx.disagree("whole-function model: %s where the implementation computed an offset"
                         % ("bin index beyond the histogram" if co else "undecodable output"), slim(case), {"kind": case["kind"]})
            continue
        cr = res["corr"]
        dist["correlation_stats_compared"] += 1
        dist["correlation_fft_noise_max"] = max(dist["correlation_fft_noise_max"], cr["noise"])
        if cr["noise"] > 1e-6:
            ctx.disagree("cross-correlation of 0/1 histograms is not integer-valued (off by %.3g)" % cr["noise"], slim(case))
            continue
        if not bins_float_vs_exact(case):
            dist["coarse_offset_skipped_bin_rounding"] += 1
            continue
        if (co["max"], co["sum"]) != (cr["max"], cr["sum"]) or (co["tie"] == 1) != (cr["ties"] > 1):
            ctx.disagree("cross-correlation differs: model max/sum/tie %s, implementation %s"
                         % ((co["max"], co["sum"], co["tie"]), (cr["max"], cr["sum"], cr["ties"])), slim(case), {"kind": case["kind"]})
            continue
        if co["tie"] and not cr["exact"]:
            dist["coarse_offset_skipped_tie_under_fft"] += 1
            continue
        if co["argmax"] != cr["argmax_rounded"]:
            ctx.disagree("correlation peak at index %d in the model, %d in the implementation" % (co["argmax"], cr["argmax_rounded"]),
                         slim(case), {"kind": case["kind"]})
            continue
        if not abs(co["delta"] - res["delta"]) <= 1e-9:
            ctx.disagree("coarse offset delta_t: model %.12f, implementation (recomputed from its own peak with the "
                         "source's expression) %.12f" % (co["delta"], res["delta"]), slim(case), {"kind": case["kind"]})
            continue
        dist["coarse_offset_compared"] += 1
        if fi is not None:
            conclusive[ci] = (fi, fo, mod)
    for ci, res in pending:
        if ci in conclusive:
            continue
        mcost, mnam = model_side_cost(cases[ci], res["delta"])
        inam = sum(1 for j in res["ib1"] if j < 0) if res.get("ib1") is not None else None
        if mcost > 20_000 and inam is not None and mnam > inam + 10:
            # the offset recomputed with the source's expression cannot be the one the implementation used
            ctx.disagree("with delta_t = (ipeak - n + 1) * tbin the first pass leaves %d events unassigned, the "
                         "implementation left %d" % (mnam, inam), slim(cases[ci]), {"kind": cases[ci]["kind"]})
            continue
        if mcost > 2_000_000 or (mcost > 20_000 and cost_total + mcost > cost_budget):
            dist["model_skipped_huge_second_pass"] += 1
            continue
        inputs.append(enc_input(cases[ci], res["delta"]))
        keep.append(ci)
        results.append(res)
    ctx.measurements.setdefault('phase_s', {})['T_before_stageA'] = round(ctx.elapsed(), 1)
    outs = ext.run_many(inputs, nproc=min(6, max(1, len(inputs) // 50)))
    mods = [parse_model(outs[k], len(cases[ci]["tsa"]), len(cases[ci]["queries"])) for k, ci in enumerate(keep)]
    for ci, res in pending:
        if ci in conclusive:
            fi, fo, mod = conclusive[ci]
            inputs.append(fi)
            outs.append(fo)
            keep.append(ci)
            results.append(res)
            mods.append(mod)
    ctx.measurements.setdefault('phase_s', {})['T_stageA_done'] = round(ctx.elapsed(), 1)
    # parabolic_max (sub-bin peak interpolation) against its model, 1-D integer-valued arrays
    n_par = 20000 if thorough else 3000
    par_in, par_seen = [], set()
    for _ in range(n_par):
        xs = gen_parabolic(rng)
        if tuple(xs) not in par_seen:
            par_seen.add(tuple(xs))
            par_in.append(xs)
    par_out = ext.run_many([[7, len(xs)] + xs for xs in par_in], nproc=2)
    dist["parabolic_max_arrays"] = len(par_in)
    dist["parabolic_max_interior_peak"] = 0
    for xs, mo in zip(par_in, par_out):
        try:
            ip, mx = impl_parabolic(xs, dtype=PAR_DTYPES[len(xs) % len(PAR_DTYPES)] if min(xs) >= -120 and max(xs) <= 120 else np.float64)
        except BaseException as e:      # noqa
            if isinstance(e, KeyboardInterrupt):
                raise
            ctx.disagree("parabolic_max: %r" % (e,), {"kind": "parabolic", "x": xs})
            continue
        imax = int(np.argmax(xs))
        interior = 0 < imax < len(xs) - 1
        dist["parabolic_max_interior_peak"] += interior
        if interior:
            nontrivial.add(json.dumps(["parabolic", xs]))
        if len(mo) != 2 or not abs(mo[0] / FCN_SCALE - ip) <= 1e-9 or not abs(mo[1] / FCN_SCALE - mx) <= 1e-9 * (1 + abs(mx)):
            ctx.disagree("parabolic_max differs: model (%s), implementation (%r, %r)"
                         % ([m / FCN_SCALE for m in mo], ip, mx), {"kind": "parabolic", "x": xs})
        elif interior and abs(ip - imax) > 0.5 + 1e-12:
            ctx.fail("parabolic_max moved the peak by more than half a bin", {"kind": "parabolic", "x": xs},
                     {"kind": "parabolic_half_bin"})
    kernel_terms = []
    sizes = []
    for k, ci in enumerate(keep):
        case, res = cases[ci], results[k]
        mod = mods[k]
        dis, _, flags = compare(case, res, mod)
        for d in dis:
            ctx.disagree(d, slim(case), {"kind": case["kind"]})
        dist["model_singular"] += bool(flags.get("singular"))
        dist["first_pass_observed"] += bool(flags.get("ib1_observed"))
        dist["index_compare_skipped_near_threshold"] += bool(flags.get("skip1"))
        dist["second_pass_compare_skipped_near_threshold"] += bool(flags.get("skip2")) and not flags.get("skip1")
        if mod["status"] == "ok":
            changed = mod["ib1"] != mod["ib"]
            dist["second_pass_assigned_something"] += changed
            npairs = sum(1 for j in mod["ib"] if j >= 0)
            if npairs >= 2:
                nontrivial.add(json.dumps([case["linear"], case["tbin"], res["delta"], case["tsa"], case["tsb"]]))
        sizes.append((len(inputs[k]) + len(outs[k]), k))
    # parabolic_max, x.ndim == 2 branch: every row must come out as the 1-D call / the model gives for that row
    n2 = 1500 if thorough else 250
    mats = []
    for _ in range(n2):
        nc = rng.choice([1, 2, 3, 3, 4, 5, 8, 13, 40])
        nr = rng.choice([1, 1, 2, 3, 5, 12])
        rows = []
        for _r in range(nr):
            k = rng.random()
            if k < 0.2:
                rows.append([rng.randrange(0, 4)] * nc)                       # flat
            elif k < 0.5:
                h, a_, m_ = rng.randrange(0, nc), rng.randrange(1, 4), rng.randrange(0, 50)
                rows.append([m_ - a_ * (i - h) ** 2 - rng.choice([0, 0, 1]) * (i - h) for i in range(nc)])
            else:
                rows.append([rng.randrange(0, 6) for _ in range(nc)])         # ties, maxima at either edge
        mats.append(rows)
    mout = ext.run_many([[6, len(m), len(m[0])] + [v for r in m for v in r] for m in mats], nproc=2)
    dist["parabolic_max_2d_arrays"] = len(mats)
    for m, mo in zip(mats, mout):
        desc = {"kind": "parabolic2d", "x": m}
        try:
            got = impl_parabolic_2d(m, dtype=PAR_DTYPES[len(m[0]) % len(PAR_DTYPES)])
            one = [impl_parabolic(r) for r in m]
        except BaseException as e:      # noqa
            if isinstance(e, KeyboardInterrupt):
                raise
            ctx.disagree("parabolic_max on a 2-D array: %r" % (e,), desc)
            continue
        exp = [(mo[2 * i] / FCN_SCALE, mo[2 * i + 1] / FCN_SCALE) for i in range(len(m))] if len(mo) == 2 * len(m) else None
        if exp is None or any(not abs(g[0] - e_[0]) <= 1e-9 or not abs(g[1] - e_[1]) <= 1e-9 * (1 + abs(e_[1])) for g, e_ in zip(got, exp)):
            ctx.disagree("parabolic_max on a 2-D array differs from the model: %s vs %s" % (got[:3], (exp or mo)[:3]), desc)
        elif any(not abs(g[0] - o[0]) <= 1e-12 or not abs(g[1] - o[1]) <= 1e-12 * (1 + abs(o[1])) for g, o in zip(got, one)):
            ctx.disagree("parabolic_max on a 2-D array differs from its own 1-D result row by row: %s vs %s" % (got[:3], one[:3]), desc)
        if len(m) > 1 and len(m[0]) > 2:
            nontrivial.add(json.dumps(["parabolic2d", m]))
    ctx.measurements.setdefault('phase_s', {})['T_parabolic_done'] = round(ctx.elapsed(), 1)
    # kernel re-evaluation (vm_compute) of the same `run` on a sample: smallest cases + random ones
    sizes.sort()
    nk = 60 if thorough else 30
    pick = [k for _, k in sizes[:nk]] + rng.sample(range(len(inputs)), min(len(inputs), nk // 2))
    pick = [k for k in dict.fromkeys(pick) if len(inputs[k]) + len(outs[k]) < 400]
    terms = [common.flat_cases_term(k, inputs[k], outs[k]) for k in pick]
    small_par = sorted(range(len(par_in)), key=lambda i: len(par_in[i]))[:20]
    terms += [common.flat_cases_term(10 ** 6 + i, [7, len(par_in[i])] + par_in[i], par_out[i]) for i in small_par]
    badk = common.coq_mismatches(PROP, HEADER, terms, shard=15) if terms else []
    for k in badk:
        ctx.disagree("kernel-evaluated model differs from the extracted model",
                     slim(cases[keep[k]]) if k < 10 ** 6 else {"kind": "parabolic", "x": par_in[k - 10 ** 6]})
    ctx.measurements.setdefault('phase_s', {})['T_kernel_done'] = round(ctx.elapsed(), 1)
    ctx.coverage["model_evaluations_extracted"] = len(inputs)
    ctx.coverage["model_evaluations_kernel"] = len(pick)
    ctx.measurements.update({k: (round(v, 9) if isinstance(v, float) else v) for k, v in meas.items()})
    ctx.measurements["bounds_used"] = {"recall_min": RECALL_MIN, "heldout_tol_s": HELD_TOL,
                                       "drift": "|err| <= 1e6*J/SD(matched tsa) + 1e-3 ppm (J = jitter bound)"}
    samples = []
    firsts = {}
    for ci in keep:
        firsts.setdefault((cases[ci]["kind"], cases[ci].get("flavour")), ci)
    for ci in list(firsts.values())[:8]:
        c = cases[ci]
        r = results[keep.index(ci)]
        samples.append({"kind": c["kind"], "linear": c["linear"], "tbin": c["tbin"], "n_tsa": len(c["tsa"]),
                        "n_tsb": len(c["tsb"]), "tsa_head": c["tsa"][:5], "tsb_head": c["tsb"][:5],
                        "delta_t": r.get("delta"), "ib_head": (r.get("ib") or [])[:8], "drift_ppm": r.get("drift")})
    return common.finish(
        ctx, TRUSTED,
        rule="three streams from the seeded RNG: (natural) trains of the property's quantifier (30..300 events, spacing "
             "0.5..10 s, drift +-100 ppm, offsets to +-300 s, 0..5 events missing on each side incl. runs and ends, "
             "jitter <= 0.1 ms, both modes, times on a 2^-30 s grid) run through the real sync_timestamps, checked by the "
             "ground-truth oracle and compared with the Coq model fed the implementation's own coarse offset; (boundary) "
             "2..8-event trains on a 1/64 s grid with a forced coarse offset, spacings and perturbations at k-1,k,k+1 "
             "grid steps around tbin and 2*tbin, spurious/missing/unsorted b events; (integer_span) the same kind of domain trains "
             "with a total span of a whole number of seconds, same oracle; plus (parabolic) integer-valued arrays through utils.parabolic_max and its "
             "model.  Non-trivial = at least two pairs returned (trains) / maximum strictly inside (arrays); distinct by full input",
        samples=samples, evaluations=len(cases) + len(par_in), distinct_nontrivial=len(nontrivial),
        extra={"input_distribution": dist, "exhaustive": False},
        assumptions=["coarse offset taken from the implementation (not modelled)",
                     "float64 vs exact arithmetic: comparisons within 2^-30 of a threshold excluded from exact index comparison"])


def slim(case):
    """Replayable description (json floats round-trip exactly)."""
    c = {k: case[k] for k in ("kind", "flavour", "also_plain", "positional", "view", "linear", "tbin", "forced_rel", "tsa", "tsb", "queries") if k in case}
    if "exact_float_pass1" in case:
        c["exact_float_pass1"] = case["exact_float_pass1"]
    if case.get("truth"):
        c["truth"] = case["truth"]
    return c


def replay(ctx, data):
    inp = data.get("input") or (data.get("correspondence_disagreements") or [{}])[0].get("input")
    if not inp:
        print(json.dumps(data, indent=1)[:3000])
        return 1
    case = inp
    if case.get("kind") == "parabolic2d":
        m = case["x"]
        got = impl_parabolic_2d(m)
        mo = common.Extracted(PROP).run_many([[6, len(m), len(m[0])] + [v for r in m for v in r]], nproc=1)[0]
        exp = [(mo[2 * i] / FCN_SCALE, mo[2 * i + 1] / FCN_SCALE) for i in range(len(m))]
        print("implementation:", got, "model:", exp)
        return 1 if any(not abs(g[0] - e[0]) <= 1e-9 or not abs(g[1] - e[1]) <= 1e-9 * (1 + abs(e[1])) for g, e in zip(got, exp)) else 0
    if case.get("kind") == "parabolic":
        xs = case["x"]
        ip, mx = impl_parabolic(xs)
        mo = common.Extracted(PROP).run_many([[7, len(xs)] + xs], nproc=1)[0]
        print("implementation:", (ip, mx), "model:", [m / FCN_SCALE for m in mo])
        return 1 if (abs(mo[0] / FCN_SCALE - ip) > 1e-9 or abs(mo[1] / FCN_SCALE - mx) > 1e-9 * (1 + abs(mx))) else 0
    res = impl_run(case)
    print("implementation:", {k: (v if not isinstance(v, list) else v[:12]) for k, v in res.items()})
    rc = 0
    if not res.get("inputs_untouched", True):
        print("implementation modified its input arrays")
        rc = 1
    if res["status"] != "ok":
        print("implementation", "raised " + str(res.get("exc")) if res["status"] == "exc" else "returned a malformed result:", res.get("msg"))
        rc = 1
    elif case.get("truth") and case.get("tbin") != 0.1:
        print("non-default tbin: outside the property's domain; ground-truth oracle (informational only):",
              [b[0] for b in oracle(case, res, {})])
    elif case.get("truth"):
        bad = oracle(case, res, {})
        print("property clauses failing on the implementation:", [b[0] for b in bad])
        rc = 1 if bad else 0
    if "delta" in res:
        out = common.Extracted(PROP).run_many([enc_input(case, res["delta"])], nproc=1)[0]
        mod = parse_model(out, len(case["tsa"]), len(case["queries"]))
        print("model:", {k: (v if not isinstance(v, list) else v[:12]) for k, v in mod.items()})
        dis, _, _ = compare(case, res, mod)
        print("model/implementation disagreements:", dis)
        rc = 1 if (rc or dis) else 0
    return rc
