"""C02 — compression is transparent, lossless and atomically published.

Proofs in coq/C02; correspondence and oracle against the real spikeglx.Reader
(__init__, compress_file, decompress_file, decompress_to_scratch) and the
mtscomp codec it delegates to.  Three families of cases (see coq/C02/Run.v):
  kind 0  which file Reader(...) settles on, for every existence pattern x entry path
  kind 1  the three procedures on an instrumented file system, with a fault
          injected at every instrumented call (zlib, writes, json.dump, check,
          rename, unlink, copy/move) and with stale files lying around
  kind 2  the codec: chunk bounds, per-chunk pre-zlib payload, round trip
  kind 3  ONE Reader object taken through sequences of open() / compress_file / decompress_file
          (keep_original both ways) / decompress_to_scratch: its cached fields (file_bin, nbytes,
          ns, raw reader, size-mismatch warning) after every call, shape and chunk-seam values
          against the original recording, and fresh Readers opened afterwards
"""
import builtins
import gc
import json
import logging
import os
import pathlib
import pickle
import shutil
import signal
import time
import zlib
from pathlib import Path

import numpy as np

import common

PROP = "C02"
HEADER = "From Coq Require Import ZArith List.\nImport ListNotations.\nFrom IBL.C02 Require Import Run."
TRUSTED = [
    "Coq 8.16.1 kernel + vm_compute (no native_compute); all C02 theorems closed under the global context except "
    "C02_cbin_shape_eq_bin_shape (joint with C11, Flocq binary64: sig_forall_dec, sig_not_dec, "
    "functional_extensionality_dep, classic)",
    "hand-written model coq/C02/Model.v of spikeglx.Reader.__init__/compress_file/decompress_file/"
    "decompress_to_scratch and of mtscomp 1.0.2 (Writer.write, Reader.tofile, chunk bounds, diff/cumsum codec), "
    "tied to the code by this run's correspondence (call traces, directory states, payload bytes)",
    "zlib: decompress(compress(b)) == b (hypothesis of the codec theorem; Python's zlib is also used by the harness "
    "to recover the pre-zlib payload of every real chunk)",
    "file-system abstraction: one instrumented Python call = one atomic step; rename/move on one file system is atomic; "
    "power loss inside a write and cross-device shutil.move are not modelled",
    "harness/pC02.py: generators, fault injector (wrappers around mtscomp.open/zlib/json/check/ThreadPool, "
    "pathlib.Path.rename/unlink, spikeglx.shutil), state abstraction by byte comparison with reference streams, oracle",
    "extraction (Require Extraction, ExtrOcamlBasic only), harness/driver.ml, ocamlfind ocamlopt; a sample of the "
    "same cases is re-evaluated by the kernel (vm_compute)",
]

FS = 30000.0
PATHS = ["bin", "cbin", "cbin_tmp", "ch", "meta", "bin_temp", "s_bin", "s_bin_temp", "s_meta", "ch_tmp"]
SUFFIX = {"bin": ".bin", "cbin": ".cbin", "cbin_tmp": ".cbin_tmp", "ch": ".ch", "meta": ".meta",
          "bin_temp": ".bin_temp", "ch_tmp": ".ch_tmp"}
EVK = {"readopen": 1, "openw": 2, "compute": 3, "append": 4, "dump": 5, "verify": 6, "rename": 7,
       "unlink": 8, "copy": 9}
OPS = ["compress_file", "decompress_file", "decompress_to_scratch"]


class CaseTimeout(Exception):
    pass


class GiveUp(BaseException):
    """Two cases hung: stop exercising the implementation, report what has been found."""


TIMEOUTS = [0]


def guarded(ctx, what, desc, tags, fn, seconds=60):
    """Run one case of the implementation under an alarm; anything it throws at the harness (exceptions of
    any type out of observation code, a hang) becomes a failing input instead of a crash of the check."""
    def on_alarm(signum, frame):
        raise CaseTimeout("no result after %d s" % seconds)
    _crumb(desc)
    old = signal.signal(signal.SIGALRM, on_alarm)
    signal.setitimer(signal.ITIMER_REAL, seconds)
    try:
        return fn()
    except Exception as e:      # noqa
        signal.setitimer(signal.ITIMER_REAL, 0)
        ctx.fail("%s: %s %r" % (what, type(e).__name__, e), desc, tags)
        if isinstance(e, CaseTimeout):
            TIMEOUTS[0] += 1
            if TIMEOUTS[0] >= 2:
                raise GiveUp()
        return None
    finally:
        signal.setitimer(signal.ITIMER_REAL, 0)
        signal.signal(signal.SIGALRM, old)


def memmap_safe(raw):
    """True if reading the whole np.memmap cannot fault: the mapped file is still at least as long as the map."""
    try:
        return (not raw._mmap.closed) and raw._mmap.size() >= raw.offset + raw.nbytes
    except Exception:
        return False


# file-name stems containing the tokens the code itself uses for temporaries and suffixes
TRICKY_STEMS = ["probe_tmp_test_g0_t0.imec0.ap", "x_tmp", "_tmp_tmp", "a.cbin_tmp.b", "rec.ch_tmp", "s.bin_temp.ap", "bin",
                "cbin.ch", "meta", "x.meta.bin.cbin", "ch_tmp_tmp.lf", "r.bin", "q.cbin", "_tmp"]


def _imports():
    import mtscomp
    import spikeglx
    mtscomp.tqdm = lambda it, **kw: it          # no progress bars
    logging.getLogger("ibllib").setLevel(logging.CRITICAL)
    logging.getLogger("mtscomp").setLevel(logging.CRITICAL)
    logging.getLogger("neuropixel").setLevel(logging.CRITICAL)
    logging.disable(logging.WARNING)
    return spikeglx, mtscomp


def meta_text(nc, ns, rid):
    xa = nc - 1
    return "\n".join([
        "acqMnMaXaDw=0,0,%d,1" % xa, "nSavedChans=%d" % nc, "niAiRangeMax=5", "niAiRangeMin=-5",
        "niMAGain=1", "niMNGain=1", "niSampRate=%d" % FS, "snsMnMaXaDw=0,0,%d,1" % xa,
        "snsSaveChanSubset=all", "typeThis=nidq",
        "fileTimeSecs=%s" % np.format_float_positional(ns / FS, trim="-"),
        "fileSizeBytes=%d" % (ns * nc * 2), "userNotes=recording %d" % rid, "~snsShankMap=(1,2,0)"]) + "\n"


def gen_data(rng, ns, nc, kind):
    """int16 matrices that stress the wrapping difference / running sum."""
    nprng = np.random.RandomState(rng.randrange(2 ** 31))
    if kind == "full":
        D = nprng.randint(-32768, 32768, size=(ns, nc))
    elif kind == "extremes":
        D = nprng.choice([-32768, 32767, -1, 0, 1, 32766, -32767], size=(ns, nc))
    elif kind == "alternate":
        D = np.where((np.arange(ns)[:, None] + np.arange(nc)[None, :]) % 2 == 0, 32767, -32768)
    elif kind == "const":
        D = np.full((ns, nc), rng.choice([0, -32768, 32767, 5]))
    elif kind == "ramp":
        D = (np.arange(ns)[:, None] * 9973 + np.arange(nc)[None, :] * 37) % 65536 - 32768
    else:
        D = nprng.randint(-40, 41, size=(ns, nc))
    return np.ascontiguousarray(D.astype(np.int16))


# --------------------------------------------------------------------------
# kind 2: codec
# --------------------------------------------------------------------------
def codec_case(tdir, nc, ns, cs, D, nthreads, stem="rec_g0_t0.nidq", as_str=False):
    """Real compress_file / decompress_file on one flat binary; returns the observation."""
    spikeglx, mtscomp = _imports()
    d = Path(tdir)
    b = d / (stem + ".bin")
    D.tofile(b)
    b.with_suffix(".meta").write_text(meta_text(nc, ns, 1))
    obs = {"nc": nc, "ns": ns, "cs": cs, "problems": []}
    sr = spikeglx.Reader(str(b) if as_str else b)
    out = sr.compress_file(keep_original=True, chunk_duration=cs / FS, n_threads=nthreads)
    if not _same_path(out, b.with_suffix(".cbin")) or not b.with_suffix(".cbin").exists():
        obs["problems"].append("compress_file did not return/create x.cbin")
        out = b.with_suffix(".cbin")
    if b.read_bytes() != D.tobytes():
        obs["problems"].append("compress_file(keep_original=True) changed the bytes of x.bin")
    if isinstance(sr._raw, np.memmap) and not memmap_safe(sr._raw):
        raise RuntimeError("compress_file(keep_original=True) truncated x.bin under the open reader")
    cm = json.loads(b.with_suffix(".ch").read_text())
    raw = Path(out).read_bytes()
    obs["bounds"] = [int(x) for x in cm["chunk_bounds"]]
    offs = cm["chunk_offsets"]
    obs["payloads"] = [list(zlib.decompress(raw[offs[i]:offs[i + 1]])) for i in range(len(offs) - 1)]
    if offs[-1] != len(raw):
        obs["problems"].append("chunk offsets do not end at the end of the .cbin")
    sc = spikeglx.Reader(str(out) if as_str else out)
    sm = spikeglx.Reader(str(b.with_suffix(".meta")) if as_str else b.with_suffix(".meta"))
    # transparency at the chunk seams (the selector semantics in general is C01's subject)
    if tuple(sc.shape) != (ns, nc) or tuple(sr.shape) != (ns, nc) or tuple(sm.shape) != (ns, nc):
        obs["problems"].append("shape differs: bin %s cbin %s meta %s" % (sr.shape, sc.shape, sm.shape))
    seams = sorted({x for bnd in obs["bounds"] for x in (bnd - 2, bnd - 1, bnd, bnd + 1) if 0 <= x <= ns})
    for a in seams:
        for e in seams:
            if a < e and e - a <= 2 * cs + 3:
                x, y = sr[a:e], sc[a:e]
                if x.shape != y.shape or not np.array_equal(x, y):
                    obs["problems"].append("Reader[%d:%d] differs between .bin and .cbin" % (a, e))
                if not np.array_equal(sc._raw[a:e], D[a:e]):
                    obs["problems"].append("cbin raw [%d:%d] differs from the data" % (a, e))
    for i in seams:
        if i < ns and not np.array_equal(sr[i], sc[i]):
            obs["problems"].append("Reader[%d] differs between .bin and .cbin" % i)
    if not np.array_equal(sr[:, :], sc[:, :]):
        obs["problems"].append("full read differs between .bin and .cbin")
    # the .ch table: offsets start at 0 and grow; chunk k read through the table is rows [b_k, b_k+1)
    if offs[0] != 0 or any(y <= x for x, y in zip(offs, offs[1:])) or len(offs) != len(obs["bounds"]):
        obs["problems"].append("chunk_offsets table is not 0 = o_0 < o_1 < ... with one entry per bound")
    for k in range(len(offs) - 1):
        ck = sc._raw.read_chunk(k, offs[k], offs[k + 1] - offs[k])
        if not np.array_equal(ck, D[obs["bounds"][k]:obs["bounds"][k + 1]]):
            obs["problems"].append("read_chunk(%d) is not rows [%d, %d)" % (k, obs["bounds"][k], obs["bounds"][k + 1]))
    # slices at every position relative to the chunk boundaries: None / negative / beyond-the-end bounds, steps >= 1
    cand = [None] + sorted({x for s0 in seams for x in (s0, -s0 - 1)} | {-ns - 1, ns + 2})
    for a in cand:
        for e in cand:
            for st in (None, 1, 2, cs, cs + 1):
                if st is not None and st < 1:
                    continue
                try:
                    y = sc._raw[slice(a, e, st)]
                except Exception as ex:
                    obs["problems"].append("cbin raw [%s:%s:%s] raised %r" % (a, e, st, ex))
                    continue
                x = D[slice(a, e, st)]
                if y.shape != x.shape or not np.array_equal(y, x):
                    obs["problems"].append("cbin raw [%s:%s:%s] differs from the data" % (a, e, st))
    rt = d / "roundtrip.bin"
    got = sc.decompress_file(keep_original=True, out=rt, n_threads=nthreads)
    obs["decoded"] = [int(x) for x in np.fromfile(rt, dtype=np.int16)]
    if Path(got) != rt or rt.read_bytes() != b.read_bytes():
        obs["problems"].append("compress followed by decompress does not reproduce the binary byte for byte")
    for r in (sr, sc, sm):
        r.close()
    # the property's own statement about the chunking
    bd = obs["bounds"]
    if not (bd[0] == 0 and bd[-1] == ns and all(0 < y - x <= cs for x, y in zip(bd, bd[1:]))
            and all(y - x == cs for x, y in zip(bd[:-1], bd[1:-1]))):
        obs["problems"].append("chunk bounds do not tile [0, ns)")
    return obs


def enc_codec_in(nc, ns, cs, D):
    return [2, nc, ns, cs] + [int(x) for x in D.reshape(-1)]


def enc_codec_out(obs):
    out = [len(obs["bounds"])] + obs["bounds"] + [len(obs["payloads"])]
    for p in obs["payloads"]:
        out += [len(p)] + p
    return out + [len(obs["decoded"])] + obs["decoded"]


# --------------------------------------------------------------------------
# kind 4 + oracle-only variants: meta-less flat binaries, an imec meta file, explicit companions, codec options
# --------------------------------------------------------------------------
def imec_meta_text(ns):
    """The shipped 3A fixture (385 channels, geometry present), with the length patched."""
    spikeglx, _ = _imports()
    src = Path(spikeglx.__file__).parent / "tests" / "fixtures" / "sample3A_g0_t0.imec.ap.meta"
    out = []
    for line in src.read_text().splitlines():
        if line.startswith("fileTimeSecs"):
            line = "fileTimeSecs=%s" % np.format_float_positional(ns / 30000.0, trim="-")
        if line.startswith("fileSizeBytes"):
            line = "fileSizeBytes=%d" % (ns * 385 * 2)
        out.append(line)
    return "\n".join(out) + "\n"


def flat_case(tdir, ncx, n, D, cs):
    """A flat int16 binary WITHOUT meta file: the size-based guess of Reader(bin); then the documented flat mode
    Reader(bin, nc=, ns=, fs=, s2v=, nsync=) through compress / decompress, compared with the same on the .cbin."""
    spikeglx, mtscomp = _imports()
    d = Path(tdir)
    d.mkdir(parents=True, exist_ok=True)
    b = d / "flat.bin"
    D.tofile(b)
    obs = {"problems": [], "size": b.stat().st_size}
    try:
        r0 = spikeglx.Reader(b)
        obs["guess"] = [int(r0.nc), int(r0.ns), int(r0.nsync)]
        if int(r0.nc) * int(r0.ns) * 2 != obs["size"] or r0.fs != 30000:
            obs["problems"].append(("flat", "guessed shape (%d, %d) does not cover the file, or fs %r" % (r0.ns, r0.nc, r0.fs)))
        r0.close()
    except AssertionError:
        obs["guess"] = [0, 0, 0]
    nsync = 1 if ncx > 1 else 0
    kw = dict(nc=ncx, ns=n, fs=FS, s2v=0.5, nsync=nsync)

    def eff_nsync(size):
        # the constructor's own rule for a meta-less file: in the 385-channel branch of the size test
        # (770 | size, 768 does not) `nsync = nsync or 1` — a nsync=0 passed by the caller becomes 1
        return nsync or (1 if (size % 768 != 0 and size % 770 == 0) else 0)

    def scaled(size):
        w_ = D.astype(np.float32) * np.float32(0.5)
        k = eff_nsync(size)
        if k:
            w_[:, -k:] = D[:, -k:]
        return w_
    sr = spikeglx.Reader(b, **kw)
    ref = np.array(sr[:, :])
    if tuple(sr.shape) != (n, ncx) or not np.array_equal(np.array(sr._raw[0:n]), D):
        obs["problems"].append(("flat", "meta-less .bin reader does not expose the samples of the file"))
    if not np.array_equal(ref, scaled(obs["size"])):
        obs["problems"].append(("flat", "flat reader (s2v=0.5, nsync=%d, effective %d) does not return the scaled samples" % (
            nsync, eff_nsync(obs["size"]))))
    out = sr.compress_file(keep_original=True, chunk_duration=cs / FS, n_threads=1)
    sc = spikeglx.Reader(out, **kw)
    # transparency: same shape and same stored samples through either file (the scaling of a meta-less reader
    # follows the size rule of whichever file it was given, so scaled values are compared with that reader's own rule)
    if tuple(sc.shape) != (n, ncx) or not np.array_equal(np.array(sc._raw[0:n]), D) or \
            not np.array_equal(np.array(sc._raw[1:n]), np.array(sr._raw[1:n])):
        obs["problems"].append(("flat", "meta-less .cbin reader does not expose the samples of the meta-less .bin"))
    if not np.array_equal(np.array(sc[:, :]), scaled(Path(out).stat().st_size)):
        obs["problems"].append(("flat", "flat .cbin reader (s2v=0.5, nsync=%d) does not return the scaled samples" % nsync))
    got = sc.decompress_file(keep_original=True, out=d / "rt.bin", n_threads=1)
    if Path(got).read_bytes() != D.tobytes():
        obs["problems"].append(("flat", "meta-less compress + decompress is not the original binary"))
    b.unlink()
    got = sc.decompress_to_scratch()
    if not _same_path(got, b) or b.read_bytes() != D.tobytes():
        obs["problems"].append(("flat", "meta-less decompress_to_scratch() did not recreate flat.bin"))
    got = sc.decompress_to_scratch(scratch_dir=d / "scr")
    if Path(got).read_bytes() != D.tobytes() or not _same_path(got, d / "scr" / "flat.bin"):
        obs["problems"].append(("flat", "meta-less decompress_to_scratch(dir) is not the original binary"))
    if sorted(q.name for q in (d / "scr").iterdir()) != ["flat.bin"]:
        obs["problems"].append(("flat", "meta-less decompress_to_scratch(dir) left %s in the scratch folder" % sorted(
            q.name for q in (d / "scr").iterdir())))
    # the caller announces another sample count than the file holds: no meta data to correct, both file types
    # open and expose the announced count (within the data); beyond the data the memmap refuses, the .cbin opens
    obs["announced"] = []
    for ns_a in sorted({n - 1, 1, n + 1} - {0}):
        kw2 = dict(kw, ns=ns_a)
        res = []
        for f in (b, out):
            try:
                r2 = spikeglx.Reader(f, **kw2)
                res.append((1, int(r2.ns), tuple(r2.shape), np.array(r2._raw[0:min(ns_a, n)])))
                r2.close()
            except ValueError:
                res.append((0, 0, None, None))
        obs["announced"].append((ns_a, [res[0][:2], res[1][:2]]))
        if ns_a <= n:
            if res[0][2] != (ns_a, ncx) or res[1][2] != (ns_a, ncx):
                obs["problems"].append(("flat", "without meta file and ns=%d announced (data: %d), Reader(.bin) exposes %s and "
                                        "Reader(.cbin) %s" % (ns_a, n, res[0][2], res[1][2])))
            elif not np.array_equal(res[0][3], res[1][3]) or not np.array_equal(res[0][3], D[0:ns_a]):
                obs["problems"].append(("flat", "without meta file and ns=%d announced, values differ between .bin and .cbin" % ns_a))
    for r in (sr, sc):
        r.close()
    return obs


def options_case(tdir, rng, variant):
    """Oracle only (outside the Coq codec model, which follows the default options): other dtypes, mtscomp options,
    an imec meta file with geometry, explicit meta_file= / ch_file= companions kept in another folder."""
    spikeglx, mtscomp = _imports()
    d = Path(tdir)
    d.mkdir(parents=True, exist_ok=True)
    P = []
    nprng = np.random.RandomState(rng.randrange(2 ** 31))
    if variant in ("int32", "uint16", "float32"):
        nc, n, cs = 3, 11, 4
        info = np.iinfo(variant) if variant != "float32" else None
        D = nprng.randint(info.min, info.max, size=(n, nc), dtype=np.int64).astype(variant) if info else \
            nprng.randint(-1000, 1000, size=(n, nc)).astype("float32")
        b = d / "t.bin"
        D.tofile(b)
        kw = dict(nc=nc, ns=n, fs=FS, dtype=variant)
        sr = spikeglx.Reader(b, **kw)
        out = sr.compress_file(keep_original=True, chunk_duration=cs / FS, n_threads=1)
        sc = spikeglx.Reader(out, **kw)
        if not np.array_equal(np.array(sc._raw[0:n]), D) or np.array(sc._raw[0:n]).dtype != D.dtype or \
                not np.array_equal(np.array(sc[2:9, :]), np.array(sr[2:9, :])):
            P.append("dtype %s: .cbin reads differ from the .bin" % variant)
        got = sc.decompress_file(keep_original=True, out=d / "rt.bin", n_threads=1)
        if Path(got).read_bytes() != D.tobytes():
            P.append("dtype %s: compress + decompress is not the original binary" % variant)
    elif variant.startswith("opt_"):
        nc, n, cs = 4, 13, 5
        D = gen_data(rng, n, nc, "full")
        b = d / "o.nidq.bin"
        D.tofile(b)
        b.with_suffix(".meta").write_text(meta_text(nc, n, 1))
        opts = {"opt_spatial": dict(do_spatial_diff=True), "opt_notime": dict(do_time_diff=False),
                "opt_corder": dict(chunk_order="C"), "opt_level9": dict(comp_level=9),
                "opt_both": dict(do_spatial_diff=True, do_time_diff=True, chunk_order="C")}[variant]
        sr = spikeglx.Reader(b)
        out = sr.compress_file(keep_original=True, chunk_duration=cs / FS, n_threads=2, **opts)
        sc = spikeglx.Reader(out)
        if tuple(sc.shape) != (n, nc) or not np.array_equal(np.array(sc._raw[0:n]), D) or \
                not np.array_equal(np.array(sc[3:11, :]), np.array(sr[3:11, :])):
            P.append("mtscomp options %s: .cbin reads differ from the .bin" % opts)
        got = sc.decompress_file(keep_original=True, out=d / "rt.bin")
        if Path(got).read_bytes() != D.tobytes():
            P.append("mtscomp options %s: compress + decompress is not the original binary" % opts)
    elif variant == "imec_meta":
        nc, n, cs = 385, 7, 3
        D = nprng.randint(-32768, 32768, size=(n, nc)).astype(np.int16)
        b = d / "s_g0_t0.imec.ap.bin"
        D.tofile(b)
        b.with_suffix(".meta").write_text(imec_meta_text(n))
        for sort in (True, False):
            sr = spikeglx.Reader(b, sort=sort)
            if sr.geometry is None:
                P.append("imec meta: no geometry")
            if not b.with_suffix(".cbin").exists():
                sr.compress_file(keep_original=True, chunk_duration=cs / FS, n_threads=1)
            sc = spikeglx.Reader(b.with_suffix(".cbin"), sort=sort)
            sm = spikeglx.Reader(b.with_suffix(".meta"), sort=sort)
            for r in (sc, sm):
                if tuple(r.shape) != (n, nc) or not np.array_equal(np.array(r[:, :]), np.array(sr[:, :])) or \
                        not np.array_equal(np.array(r[2:5, 3:380]), np.array(sr[2:5, 3:380])):
                    P.append("imec meta (sort=%s): reads through %s differ from the .bin" % (sort, Path(r.file_bin).suffix))
            x, sy = sc.read(nsel=slice(0, n), sync=True)
            x0, sy0 = sr.read(nsel=slice(0, n), sync=True)
            if not np.array_equal(x, x0) or not np.array_equal(sy, sy0):
                P.append("imec meta (sort=%s): read(sync=True) differs between .bin and .cbin" % sort)
            for r in (sr, sc, sm):
                r.close()
    elif variant == "explicit_companions":
        nc, n, cs = 3, 11, 4
        D = gen_data(rng, n, nc, "full")
        b = d / "data" / "rec.nidq.bin"
        (d / "data").mkdir()
        (d / "elsewhere").mkdir()
        D.tofile(b)
        mf = d / "elsewhere" / "other_name.meta"
        mf.write_text(meta_text(nc, n, 1))
        sr = spikeglx.Reader(b, meta_file=mf)
        if tuple(sr.shape) != (n, nc) or sr.file_meta_data != mf:
            P.append("explicit meta_file: not used")
        out = sr.compress_file(keep_original=False, chunk_duration=cs / FS, n_threads=1)
        chf = d / "elsewhere" / "other_name.ch"
        shutil.move(str(Path(out).with_suffix(".ch")), str(chf))
        sc = spikeglx.Reader(out, meta_file=mf, ch_file=chf)
        if tuple(sc.shape) != (n, nc) or not np.array_equal(np.array(sc._raw[0:n]), D):
            P.append("explicit meta_file / ch_file: the compressed recording does not read back")
        if sc.verify_hash() is not True:
            P.append("explicit ch_file: verify_hash is not True")
        got = sc.decompress_to_scratch(scratch_dir=d / "scr")
        if Path(got).read_bytes() != D.tobytes() or not (d / "scr" / "rec.nidq.meta").exists():
            P.append("explicit companions: decompress_to_scratch is not the original binary + meta copy")
        got = sc.decompress_file(keep_original=False, n_threads=1)
        if Path(got).read_bytes() != D.tobytes() or chf.exists() or Path(out).exists() or not mf.exists():
            P.append("explicit companions: in-place decompression did not remove exactly the .cbin and the given .ch")
        if tuple(sc.shape) != (n, nc) or not sc.is_open or not np.array_equal(np.array(sc._raw[0:n]), D):
            P.append("explicit companions: reader not open on the new binary after in-place decompression")
        sc.close()
    return {"problems": [("options", p) for p in P]}


# --------------------------------------------------------------------------
# kind 6: the names compress_file uses (temporaries, published files), for stems and folders full of suffix tokens
# --------------------------------------------------------------------------
def names_case(tdir, stem, D, cs):
    spikeglx, mtscomp = _imports()
    d = Path(tdir) / "sess_tmp.cbin_tmp" / "probe.ch_tmp.bin_temp"
    d.mkdir(parents=True)
    n, nc = D.shape
    b = d / (stem + ".bin")
    D.tofile(b)
    b.with_suffix(".meta").write_text(meta_text(nc, n, 1))
    base = {b.name, b.with_suffix(".meta").name}
    obs = {"problems": [], "name": b.name}
    # run 1: the integrity check fails -> the temporaries stay behind under their names
    real = mtscomp.check

    def boom(*a, **k):
        raise RuntimeError("injected")
    mtscomp.check = boom
    try:
        try:
            spikeglx.Reader(b).compress_file(keep_original=True, chunk_duration=cs / FS, n_threads=1)
            obs["problems"].append("compress_file returned although the integrity check failed")
        except RuntimeError:
            pass
    finally:
        mtscomp.check = real
    left = sorted({q.name for q in d.iterdir()} - base)
    tmp_cbin = [x for x in left if x.endswith(".cbin_tmp")]
    tmp_ch = [x for x in left if x.endswith(".ch_tmp")]
    if len(left) != 2 or len(tmp_cbin) != 1 or len(tmp_ch) != 1:
        obs["problems"].append("after a failed check the folder holds %s besides the source" % left)
    # run 2: in place
    sr = spikeglx.Reader(b)
    out = sr.compress_file(keep_original=False, chunk_duration=cs / FS, n_threads=1)
    now = sorted({q.name for q in d.iterdir()})
    want = sorted([stem + ".cbin", stem + ".ch", stem + ".meta"])
    pub_cbin = [x for x in now if x.endswith(".cbin")]
    pub_ch = [x for x in now if x.endswith(".ch")]
    if now != want:
        obs["problems"].append("after compress_file(keep_original=False) of %s the folder holds %s, expected %s" % (
            b.name, now, want))
    if not _same_path(out, d / (stem + ".cbin")) or not _same_path(sr.file_bin, d / (stem + ".cbin")):
        obs["problems"].append("compress_file returned %s / file_bin %s" % (out, sr.file_bin))
    sr.close()
    for entry in (d / (stem + ".cbin"), d / (stem + ".meta")):
        try:
            r = spikeglx.Reader(entry)
            if r.file_bin is None or not r.is_open or tuple(r.shape) != (n, nc) or not np.array_equal(np.array(r._raw[0:n]), D):
                obs["problems"].append("Reader(%s) does not open the published recording" % entry.name)
            elif entry.suffix == ".cbin":
                got = r.decompress_file(keep_original=False, n_threads=1)
                if not _same_path(got, b) or b.read_bytes() != D.tobytes() or \
                        sorted(q.name for q in d.iterdir()) != sorted(base):
                    obs["problems"].append("in-place decompression of the published recording does not restore %s alone" % b.name)
                r.compress_file(keep_original=False, chunk_duration=cs / FS, n_threads=1)
            r.close()
        except Exception as e:
            obs["problems"].append("Reader(%s) of the published recording raised %s %r" % (entry.name, type(e).__name__, e))
    obs["names"] = [(tmp_cbin or [""])[0], (tmp_ch or [""])[0], (pub_cbin or [""])[0], (pub_ch or [""])[0]]
    return obs


# --------------------------------------------------------------------------
# a "world": reference streams for two recordings x two chunk configurations
# --------------------------------------------------------------------------
class World:
    def __init__(self, root, rng, nc, ns, cs):
        """cs = {1: chunk size of config 1, 2: chunk size of config 2}."""
        spikeglx, mtscomp = _imports()
        self.nc, self.ns, self.cs = nc, ns, cs
        self.stem = rng.choice(["rec_g0_t0.nidq", "x", "a.b.c", "x.imec0.ap"] + TRICKY_STEMS[:6])
        self.orig, self.comp, self.hdr, self.offs, self.bounds, self.meta, self.D = {}, {}, {}, {}, {}, {}, {}
        ref = Path(root) / "ref"
        for r in (1, 2):
            self.D[r] = gen_data(rng, ns, nc, rng.choice(["full", "extremes", "small"]))
            if r == 2 and np.array_equal(self.D[1], self.D[2]):
                self.D[2] = self.D[2] ^ np.int16(1)
            self.orig[r] = self.D[r].tobytes()
            self.meta[r] = meta_text(nc, ns, r)
            for c in (1, 2):
                d = ref / ("r%dc%d" % (r, c))
                d.mkdir(parents=True)
                b = d / (self.stem + ".bin")
                b.write_bytes(self.orig[r])
                b.with_suffix(".meta").write_text(self.meta[r])
                mtscomp.compress(b, out=b.with_suffix(".cbin"), outmeta=b.with_suffix(".ch"), sample_rate=FS,
                                 n_channels=nc, dtype=np.int16, chunk_duration=cs[c] / FS, n_threads=1,
                                 check_after_compress=False)
                self.comp[r, c] = b.with_suffix(".cbin").read_bytes()
                self.hdr[r, c] = b.with_suffix(".ch").read_text()
                h = json.loads(self.hdr[r, c])
                self.offs[r, c] = h["chunk_offsets"]
                self.bounds[c] = h["chunk_bounds"]
        self.m = {c: len(self.bounds[c]) - 1 for c in (1, 2)}

    # concrete bytes for an abstract state [st, a, b, c] of path kind p, in the context (r, c) of the call
    def content(self, p, st, r, c):
        if st[0] == 0:
            return None
        fam = "comp" if p in ("cbin", "cbin_tmp") else "hdr" if p in ("ch", "ch_tmp") else \
            "meta" if p in ("meta", "s_meta") else "orig"
        if st[0] == 1:
            j = st[1]
            if fam == "comp":
                return self.comp[r, c][:self.offs[r, c][j]]
            if fam == "orig":
                return self.orig[r][:self.bounds[c][j] * self.nc * 2]
            return b""
        t, rr, cc = st[1], st[2], st[3]
        return {1: lambda: self.orig[rr], 2: lambda: self.comp[rr, cc],
                3: lambda: self.hdr[rr, cc].encode(), 4: lambda: self.meta[rr].encode()}[t]()

    # abstract state of a real file, in the context (r, c) of the call
    def abstract(self, f, r, c):
        f = Path(f)
        if not f.exists():
            return [0, 0, 0, 0]
        data = f.read_bytes()
        for rr in (1, 2):
            if data == self.orig[rr]:
                return [2, 1, rr, 0]
            if data == self.meta[rr].encode():
                return [2, 4, rr, 0]
            for cc in (1, 2):
                if data == self.comp[rr, cc]:
                    return [2, 2, rr, cc]
                if data == self.hdr[rr, cc].encode():
                    return [2, 3, rr, cc]
        if data == b"":
            return [1, 0, 0, 0]
        for j in range(1, self.m[c]):
            if data == self.comp[r, c][:self.offs[r, c][j]] or data == self.orig[r][:self.bounds[c][j] * self.nc * 2]:
                return [1, j, 0, 0]
        return [9, len(data), 0, 0]


# --------------------------------------------------------------------------
# instrumentation: every call the model has a step for goes through Hooks
# --------------------------------------------------------------------------
class InjectedFault(Exception):
    pass


class Hooks:
    def __init__(self, paths, fault, watch=None):
        self.paths = paths            # {resolved path string: code}
        self.fault = fault            # None or index of the call that raises
        self.count = 0
        self.events = []
        self.injected = False
        self.quiet = 0                # >0 while inside mtscomp.check: not instrumented
        self.nzip = 0
        self.watch = watch            # callable(event) -> None, invoked before an unlink/rename happens
        self.order_problems = []

    def code(self, p):
        return self.paths.get(str(p), 99)

    def pre(self):
        if self.quiet:
            return
        if self.fault is not None and self.count == self.fault:
            self.injected = True
            raise InjectedFault("injected at call %d" % self.count)
        self.count += 1

    def post(self, kind, x=0, y=0):
        if not self.quiet:
            self.events.append([EVK[kind], x, y])


class FileProxy:
    def __init__(self, f, hooks, path, binary):
        self._f, self._h, self._p, self._bin, self._n = f, hooks, path, binary, 0

    def write(self, data):
        if not self._bin:
            return self._f.write(data)
        self._h.pre()
        n = self._f.write(data)
        self._h.post("append", self._h.code(self._p), self._n)
        self._n += 1
        return n

    def __enter__(self):
        return self

    def __exit__(self, *a):
        self._f.close()
        return False

    def __getattr__(self, k):
        return getattr(self._f, k)


class Instrument:
    """Context manager installing the wrappers around the code under test."""

    def __init__(self, hooks):
        self.h = hooks

    def __enter__(self):
        spikeglx, mtscomp = _imports()
        h = self.h
        self.saved = {"check": mtscomp.check, "ThreadPool": mtscomp.ThreadPool,
                      "rename": pathlib.Path.rename, "unlink": pathlib.Path.unlink}
        real_check = mtscomp.check

        def w_open(file, mode="r", *a, **k):
            if h.quiet or h.code(file) == 99:
                return builtins.open(file, mode, *a, **k)
            h.pre()
            f = builtins.open(file, mode, *a, **k)
            if "w" in mode:
                h.post("openw", h.code(file))
                return FileProxy(f, h, file, "b" in mode)
            h.post("readopen", h.code(file))
            return f

        class ZlibProxy:
            def __getattr__(s, k):
                return getattr(zlib, k)

            def compress(s, data, *a, **k):
                h.pre()
                r = zlib.compress(data, *a, **k)
                if not h.quiet:
                    h.post("compute", h.nzip)
                    h.nzip += 1
                return r

            def decompress(s, data, *a, **k):
                h.pre()
                r = zlib.decompress(data, *a, **k)
                if not h.quiet:
                    h.post("compute", h.nzip)
                    h.nzip += 1
                return r

        class JsonProxy:
            def __getattr__(s, k):
                return getattr(json, k)

            def dump(s, obj, f, **k):
                h.pre()
                json.dump(obj, getattr(f, "_f", f), **k)
                h.post("dump", h.code(getattr(f, "_p", "")))

        def w_check(*a, **k):
            h.pre()
            h.quiet += 1
            try:
                real_check(*a, **k)
            finally:
                h.quiet -= 1
            h.post("verify")

        class SerialPool:
            def __init__(s, *a, **k):
                pass

            def map(s, f, it):
                return [f(x) for x in it]

            def close(s):
                pass

            def join(s):
                pass

        real_rename, real_unlink = self.saved["rename"], self.saved["unlink"]

        def w_rename(p, target):
            if h.quiet or h.code(p) == 99:
                return real_rename(p, target)
            h.pre()
            if h.watch:
                h.watch(h, "rename", p, target)
            r = real_rename(p, target)
            h.post("rename", h.code(p), h.code(target))
            return r

        def w_unlink(p, *a, **k):
            if h.quiet or h.code(p) == 99:
                return real_unlink(p, *a, **k)
            h.pre()
            if h.watch:
                h.watch(h, "unlink", p, None)
            r = real_unlink(p, *a, **k)
            h.post("unlink", h.code(p))
            return r

        class ShutilProxy:
            def __getattr__(s, k):
                return getattr(shutil, k)

            def copy(s, a, b, **k):
                h.pre()
                r = shutil.copy(a, b, **k)
                h.post("copy", h.code(a), h.code(b))
                return r

            def move(s, a, b, **k):
                h.pre()
                if h.watch:
                    h.watch(h, "rename", a, b)
                h.quiet += 1
                try:
                    r = shutil.move(a, b, **k)
                finally:
                    h.quiet -= 1
                h.post("rename", h.code(a), h.code(b))
                return r

        mtscomp.open = w_open
        mtscomp.zlib = ZlibProxy()
        mtscomp.json = JsonProxy()
        mtscomp.check = w_check
        mtscomp.ThreadPool = SerialPool
        pathlib.Path.rename = w_rename
        pathlib.Path.unlink = w_unlink
        spikeglx.shutil = ShutilProxy()
        return self

    def __exit__(self, *a):
        spikeglx, mtscomp = _imports()
        del mtscomp.open
        mtscomp.zlib = zlib
        mtscomp.json = json
        mtscomp.check = self.saved["check"]
        mtscomp.ThreadPool = self.saved["ThreadPool"]
        pathlib.Path.rename = self.saved["rename"]
        pathlib.Path.unlink = self.saved["unlink"]
        spikeglx.shutil = shutil
        return False


# --------------------------------------------------------------------------
# kind 1: one procedure call on a prepared directory
# --------------------------------------------------------------------------
def scenario_paths(d, stem):
    d = Path(d)
    fp = {k: d / (stem + SUFFIX[k]) for k in SUFFIX}
    fp["s_bin"] = d / "scratch" / (stem + ".bin")
    fp["s_bin_temp"] = d / "scratch" / (stem + ".bin_temp")
    fp["s_meta"] = d / "scratch" / (stem + ".meta")
    return fp


def default_threads():
    _, mtscomp = _imports()
    return int(mtscomp.read_config().n_threads)


def fs_case(world, d, sc):
    """sc: dict(op, r, c, B, keep, chk, ow, sd, fault, init={path: [st,a,b,c]}).  Runs the real call.
    Returns the observation (outcome, events, final abstract states, oracle problems)."""
    spikeglx, mtscomp = _imports()
    d = Path(d)
    (d / "scratch").mkdir(parents=True, exist_ok=True)
    fp = scenario_paths(d, world.stem)
    r, c = sc["r"], sc["c"]
    for k in PATHS:
        data = world.content(k, sc["init"][k], r, c)
        if data is not None:
            fp[k].write_bytes(data)
    op = sc["op"]
    src = fp["bin"] if op == 0 else fp["cbin"]
    obs = {"problems": [], "ret": None}
    try:
        sr = spikeglx.Reader(src)
    except Exception as e:
        obs["problems"].append(("setup", "cannot open the source: %r" % (e,)))
        obs.update(outcome=2, events=[], final={k: world.abstract(fp[k], r, c) for k in PATHS})
        return obs
    codes = {str(fp[k]): i for i, k in enumerate(PATHS)}

    # ordering clause, observed on the real run: at the moment a source is unlinked, is the replacement complete?
    def watch(h, what, p, target):
        if what != "unlink":
            return
        k = PATHS[h.code(p)]
        if op == 0 and k == "bin":
            st, sh = world.abstract(fp["cbin"], r, c), world.abstract(fp["ch"], r, c)
            if st != [2, 2, r, c] or sh != [2, 3, r, c]:
                h.order_problems.append("x.bin unlinked while x.cbin/x.ch are %s/%s" % (st, sh))
        if op == 1 and k in ("cbin", "ch"):
            st = world.abstract(fp["bin"], r, c)
            if st != [2, 1, r, 0]:
                h.order_problems.append("x.%s unlinked while x.bin is %s" % (k, st))

    hooks = Hooks(codes, sc["fault"], watch)
    exc = None
    with Instrument(hooks):
        try:
            if op == 0:
                obs["ret"] = sr.compress_file(keep_original=bool(sc["keep"]), chunk_duration=world.cs[c] / FS,
                                              n_threads=sc["B"], check_after_compress=bool(sc["chk"]))
            elif op == 1:
                obs["ret"] = sr.decompress_file(keep_original=bool(sc["keep"]), overwrite=bool(sc["ow"]),
                                                n_threads=sc["B"], check_after_decompress=bool(sc["chk"]))
            else:
                obs["ret"] = sr.decompress_to_scratch(scratch_dir=(d / "scratch") if sc["sd"] else None)
        except BaseException as e:      # noqa
            if isinstance(e, (CaseTimeout, GiveUp, KeyboardInterrupt)):
                raise
            exc = e
    obs["exc"] = None if exc is None else type(exc).__name__
    obs["in_codec"] = False
    tb = exc.__traceback__ if exc is not None else None
    while tb is not None:
        co = tb.tb_frame.f_code
        if co.co_filename.endswith("mtscomp.py") and co.co_name in ("compress", "decompress"):
            obs["in_codec"] = True
        tb = tb.tb_next
    obs["outcome"] = 0 if exc is None else (1 if hooks.injected else 2)
    obs["events"] = hooks.events
    obs["final"] = {k: world.abstract(fp[k], r, c) for k in PATHS}
    obs["file_bin"] = str(getattr(sr, "file_bin", None))
    for p in hooks.order_problems:
        obs["problems"].append(("order", p))
    try:
        sr.close()
    except Exception:
        pass
    fs_oracle(world, sc, fp, obs)
    return obs


def _same_path(ret, want):
    try:
        return Path(ret) == Path(want)
    except Exception:
        return False


def fs_oracle(world, sc, fp, obs):
    """The property's clauses, on the real directory only (no model involved)."""
    op, r, c = sc["op"], sc["r"], sc["c"]
    init, fin, P = sc["init"], obs["final"], obs["problems"]
    done = obs["outcome"] == 0
    orig, comp, hdr = [2, 1, r, 0], [2, 2, r, c], [2, 3, r, c]
    if op == 0:
        if fin["cbin"][0] in (1, 9):
            P.append(("final_partial", "x.cbin exists and is not a complete stream: %s" % fin["cbin"]))
        if fin["cbin"] != init["cbin"] and fin["cbin"] != comp:
            P.append(("final_wrong", "x.cbin changed to something that is not the new stream: %s" % fin["cbin"]))
        if fin["bin"] != orig:
            if sc["keep"]:
                P.append(("source_touched", "x.bin is %s although keep_original=True" % fin["bin"]))
            if fin["cbin"] != comp or fin["ch"] != hdr:
                P.append(("source_lost", "x.bin removed but x.cbin/x.ch are %s/%s" % (fin["cbin"], fin["ch"])))
        elif not done and fin["bin"] != init["bin"]:
            P.append(("source_touched", "x.bin changed by a failed run"))
        if done:
            if fin["cbin"] != comp or fin["ch"] != hdr or fin["cbin_tmp"][0] != 0:
                P.append(("done_incomplete", "compress_file returned but cbin/ch/tmp are %s/%s/%s" % (
                    fin["cbin"], fin["ch"], fin["cbin_tmp"])))
            if not _same_path(obs["ret"], fp["cbin"]):
                P.append(("return", "compress_file returned %s" % obs["ret"]))
            want = fp["bin"] if sc["keep"] else fp["cbin"]
            if obs["file_bin"] != str(want):
                P.append(("return", "reader.file_bin is %s" % obs["file_bin"]))
            if (fin["bin"][0] == 0) != (not sc["keep"]):
                P.append(("keep", "keep_original=%s but x.bin is %s" % (sc["keep"], fin["bin"])))
        if done and fin["ch_tmp"][0] != 0:
            P.append(("done_incomplete", "compress_file returned but x.ch_tmp is %s" % fin["ch_tmp"]))
        # the header carries a final name too (F-C02-b/c, repaired in 746882f)
        if fin["ch"][0] in (1, 9) and init["ch"][0] not in (1, 9):
            P.append(("ch_partial", "compress_file left a truncated x.ch"))
        if not done and obs.get("in_codec") and (fin["ch"] != init["ch"] or fin["cbin"] != init["cbin"]):
            P.append(("ch_mismatch", "compression failed part-way but x.cbin/x.ch changed from %s/%s to %s/%s" % (
                init["cbin"], init["ch"], fin["cbin"], fin["ch"])))
        pair_ok = fin["cbin"][0] == 2 and fin["ch"] == [2, 3, fin["cbin"][2], fin["cbin"][3]]
        pair_was_ok = init["cbin"][0] == 2 and init["ch"] == [2, 3, init["cbin"][2], init["cbin"][3]]
        if not done and fin["cbin"][0] == 2 and pair_was_ok and not pair_ok:
            # only the window between the two renames may do this, and then the new stream must be safe
            obs["window"] = True
            if obs.get("in_codec") or fin["cbin_tmp"] != comp or fin["ch"] != hdr or fin["bin"] != orig:
                P.append(("ch_mismatch", "failed compress_file left x.cbin %s next to x.ch %s (tmp %s)" % (
                    fin["cbin"], fin["ch"], fin["cbin_tmp"])))
    elif op == 1:
        if fin["cbin"] != comp or fin["ch"] != hdr:
            if sc["keep"]:
                P.append(("source_touched", "x.cbin/x.ch are %s/%s although keep_original=True" % (fin["cbin"], fin["ch"])))
            if fin["bin"] != orig:
                P.append(("source_lost", "x.cbin or x.ch removed but x.bin is %s" % fin["bin"]))
        if done:
            if fin["bin"] != orig:
                P.append(("done_incomplete", "decompress_file returned but x.bin is %s" % fin["bin"]))
            if not _same_path(obs["ret"], fp["bin"]):
                P.append(("return", "decompress_file returned %s" % obs["ret"]))
            if (fin["cbin"][0] == 0 and fin["ch"][0] == 0) != (not sc["keep"]):
                P.append(("keep", "keep_original=%s but x.cbin/x.ch are %s/%s" % (sc["keep"], fin["cbin"], fin["ch"])))
    else:
        tgt, tmp = ("s_bin", "s_bin_temp") if sc["sd"] else ("bin", "bin_temp")
        if fin["cbin"] != comp or fin["ch"] != hdr:
            P.append(("source_touched", "decompress_to_scratch changed x.cbin/x.ch to %s/%s" % (fin["cbin"], fin["ch"])))
        if fin[tgt] != init[tgt] and fin[tgt] != orig:
            P.append(("final_partial", "scratch .bin is %s" % fin[tgt]))
        if init[tgt][0] in (0, 2) and fin[tgt][0] in (1, 9):
            P.append(("final_partial", "scratch .bin exists and is incomplete: %s" % fin[tgt]))
        if done:
            if not _same_path(obs["ret"], fp[tgt]):
                P.append(("return", "decompress_to_scratch returned %s" % obs["ret"]))
            if init[tgt][0] == 0 and (fin[tgt] != orig or fin[tmp][0] != 0):
                P.append(("done_incomplete", "decompress_to_scratch returned but bin/tmp are %s/%s" % (fin[tgt], fin[tmp])))
            if sc["sd"] and fin["s_meta"] != [2, 4, r, 0]:
                P.append(("done_incomplete", "scratch .meta is %s" % fin["s_meta"]))


def enc_fs_in(world, sc):
    flat = [1, sc["op"], sc["r"], sc["c"], world.m[sc["c"]], sc["B"], sc["keep"], sc["chk"], sc["ow"], sc["sd"],
            -1 if sc["fault"] is None else sc["fault"]]
    for k in PATHS:
        flat += sc["init"][k]
    return flat


def enc_fs_out(obs):
    out = [obs["outcome"], len(obs["events"])]
    for e in obs["events"]:
        out += e
    for k in PATHS:
        out += obs["final"][k]
    return out


A = [0, 0, 0, 0]


def gen_scenarios(ctx, world):
    """Initial directory x options for each procedure (without the fault position)."""
    rng = ctx.rng
    r = rng.choice([1, 2])
    o = 3 - r
    res = []

    def base(op, c):
        init = {k: list(A) for k in PATHS}
        init["meta"] = [2, 4, r, 0]
        if op == 0:
            init["bin"] = [2, 1, r, 0]
        else:
            init["cbin"], init["ch"] = [2, 2, r, c], [2, 3, r, c]
        return init

    def part(c):
        return [1, rng.randrange(0, world.m[c]), 0, 0]

    for c in (1, 2):
        oc = 3 - c
        # compress_file
        for keep in (1, 0):
            for chk in (1, 0):
                stale = [("clean", {}),
                         ("same", {"cbin": [2, 2, r, c], "ch": [2, 3, r, c]}),
                         ("othercfg", {"cbin": [2, 2, r, oc], "ch": [2, 3, r, oc]}),
                         ("otherrec", {"cbin": [2, 2, o, c], "ch": [2, 3, o, c]}),
                         ("tmp_left", {"cbin_tmp": part(c)}),
                         ("tmp_full_other", {"cbin_tmp": [2, 2, o, oc], "ch": [2, 3, o, oc]}),
                         ("chtmp_left", {"ch_tmp": [1, 0, 0, 0], "cbin": [2, 2, r, oc], "ch": [2, 3, r, oc]}),
                         ("chtmp_other", {"ch_tmp": [2, 3, o, oc], "cbin_tmp": part(c)})]
                for name, extra in stale:
                    init = base(0, c)
                    init.update(extra)
                    res.append(dict(op=0, r=r, c=c, B=rng.choice([1, 1, 2, 3]), keep=keep, chk=chk, ow=0, sd=0,
                                    init=init, stale=name))
        # decompress_file (out = x.bin)
        for keep in (1, 0):
            for chk in (1, 0):
                for ow in (1, 0):
                    for name, extra in [("clean", {}), ("bin_same", {"bin": [2, 1, r, 0]}),
                                        ("bin_other", {"bin": [2, 1, o, 0]}), ("bin_partial", {"bin": part(c)})]:
                        init = base(1, c)
                        init.update(extra)
                        res.append(dict(op=1, r=r, c=c, B=rng.choice([1, 1, 2, 3]), keep=keep, chk=chk, ow=ow,
                                        sd=0, init=init, stale=name))
        # decompress_to_scratch
        B = default_threads()
        for sd in (1, 0):
            tgt, tmp = ("s_bin", "s_bin_temp") if sd else ("bin", "bin_temp")
            for name, extra in [("clean", {}), ("have", {tgt: [2, 1, r, 0]}), ("have_other", {tgt: [2, 1, o, 0]}),
                                ("tmp_left", {tmp: part(c)}), ("tmp_other", {tmp: [2, 1, o, 0]}),
                                ("meta_other", {"s_meta": [2, 4, o, 0]} if sd else {"bin_temp": [1, 0, 0, 0]}),
                                ("target_partial", {tgt: part(c)})]:
                init = base(2, c)
                init.update(extra)
                res.append(dict(op=2, r=r, c=c, B=B, keep=1, chk=0, ow=1, sd=sd, init=init, stale=name))
    return res


# --------------------------------------------------------------------------
# kind 3: one Reader object through a sequence of calls
# --------------------------------------------------------------------------
class _Cap(logging.Handler):
    def __init__(self):
        super().__init__(level=logging.WARNING)
        self.hits = 0

    def emit(self, record):
        if "checkout" in record.getMessage():
            self.hits += 1


def _raw_kind(sr):
    raw = getattr(sr, "_raw", None)
    if raw is None:
        return 0
    if isinstance(raw, np.memmap):
        if raw._mmap.closed:
            return 3
        return 1 if memmap_safe(raw) else 4      # 4: the file under the map has been truncated (reading would fault)
    cd = getattr(raw, "cdata", None)
    return 3 if (cd is None or cd.closed) else 2


def object_case(tdir, nc, n, cs, ns0, f0, ops, D, stem="rec_g0_t0.nidq", as_str=False, iw=False, sort=True):
    """ops: list of op codes (see coq/C02/Run.v kind 3); ops[0] is the open() done by the constructor."""
    spikeglx, mtscomp = _imports()
    d = Path(tdir)
    ref = d / "ref"
    ref.mkdir(parents=True)
    rb = ref / (stem + ".bin")
    D.tofile(rb)
    rb.with_suffix(".meta").write_text(meta_text(nc, n, 1))
    mtscomp.compress(rb, out=rb.with_suffix(".cbin"), outmeta=rb.with_suffix(".ch"), sample_rate=FS, n_channels=nc,
                     dtype=np.int16, chunk_duration=cs / FS, n_threads=1, check_after_compress=False)
    zc = rb.with_suffix(".cbin").stat().st_size
    bounds = json.loads(rb.with_suffix(".ch").read_text())["chunk_bounds"]
    pr = spikeglx.Reader(rb, sort=sort)
    seams = sorted({x for bnd in bounds for x in (bnd - 1, bnd, bnd + 1) if 0 <= x <= n})
    sels = [slice(None)] + [slice(a, e) for a in seams for e in seams if a < e][:40] + [i for i in seams if i < n]
    refv = [np.array(pr[sel]) for sel in sels]
    pr.close()
    w = d / "w"
    (w / "scratch").mkdir(parents=True)
    b = w / (stem + ".bin")
    b.with_suffix(".meta").write_text(meta_text(nc, ns0, 1))
    if f0 == 1:
        shutil.copy(rb, b)
    else:
        shutil.copy(rb.with_suffix(".cbin"), b.with_suffix(".cbin"))
        shutil.copy(rb.with_suffix(".ch"), b.with_suffix(".ch"))
    obs = {"zc": zc, "steps": [], "problems": [], "stale_nbytes": 0}
    lg = logging.getLogger("ibllib")
    cap = _Cap()
    old = (lg.level, lg.propagate, logging.root.manager.disable)
    logging.disable(logging.NOTSET)
    lg.setLevel(logging.WARNING)
    lg.propagate = False
    lg.addHandler(cap)
    sr = None
    warned = 0
    try:
        for k, op in enumerate(ops):
            raised = 0
            cap.hits = 0
            open_before = bool(sr is not None and sr.is_open)
            try:
                if k == 0:
                    p0 = b if f0 == 1 else b.with_suffix(".cbin")
                    sr = spikeglx.Reader(str(p0) if as_str else p0, open=(op == 0), ignore_warnings=iw, sort=sort)
                    warned = int(cap.hits > 0)
                elif op == 0:
                    sr.open()
                    warned = int(cap.hits > 0)
                elif op in (1, 2):
                    sr.compress_file(keep_original=(op == 1), chunk_duration=cs / FS, n_threads=1)
                elif op in (3, 4):
                    was_open = sr.is_open
                    sr.decompress_file(keep_original=(op == 3), overwrite=True, n_threads=1)
                    if op == 4 and was_open:        # the in-place variant re-opens an opened object
                        warned = int(cap.hits > 0)
                elif op == 5:
                    got = sr.decompress_to_scratch(scratch_dir=w / "scratch")
                    if Path(got) != w / "scratch" / b.name or not Path(got).exists():
                        obs["problems"].append(("object_scratch", "decompress_to_scratch(dir) returned %s" % got))
                else:
                    got = sr.decompress_to_scratch()
                    if Path(got) != b or not b.exists():
                        obs["problems"].append(("object_scratch", "decompress_to_scratch() returned %s" % got))
            except (AssertionError, ValueError) as e:
                raised = 1
                if k == 0:
                    obs["problems"].append(("object_open", "constructor raised %r" % (e,)))
                    break
            rk = _raw_kind(sr)
            fcode = {".bin": 1, ".cbin": 2}.get(Path(sr.file_bin).suffix, 9)
            obs["steps"].append([raised, fcode, int(sr.nbytes), int(sr.ns), rk, warned,
                                 int(b.exists()), int(b.with_suffix(".cbin").exists()),
                                 int((w / "scratch" / b.name).exists())])
            for lost in (b.with_suffix(".bin_temp"), w / "scratch" / (stem + ".bin_temp"), b.with_suffix(".cbin_tmp"),
                         b.with_suffix(".ch_tmp")):
                if lost.exists():
                    obs["problems"].append(("object_leftover", "%s left behind by a call that returned" % lost.name))
            for sb_ in (b, w / "scratch" / b.name):
                if sb_.exists() and sb_.read_bytes() != D.tobytes():
                    obs["problems"].append(("object_bytes", "%s is not the original binary byte for byte" % sb_))
            tag = "after call %d (%s)" % (k, OBJ_OPS[op])
            # the property: the same object keeps exposing the recording (once it has been opened, also
            # when the meta file claims another length)
            if (ns0 == n or rk in (1, 2)) and tuple(sr.shape) != (n, nc):
                obs["problems"].append(("object_shape", "%s: shape %s, recording is %s" % (tag, tuple(sr.shape), (n, nc))))
            if int(sr.nbytes) != Path(sr.file_bin).stat().st_size:
                obs["stale_nbytes"] += 1        # allowed only while pointing at x.cbin (nothing reads it there)
                if fcode == 1:
                    obs["problems"].append(("object_nbytes", "%s: nbytes %d is not the size of x.bin" % (tag, sr.nbytes)))
            if warned and (ns0 == n or iw):
                obs["problems"].append(("object_warning", "%s: size-mismatch warning although %s" % (
                    tag, "ignore_warnings=True" if iw else "meta data and file agree")))
            if op == 0 and raised:
                obs["problems"].append(("object_open", "%s: open() raised" % tag))
            if op in (2, 4) and not raised and open_before and not sr.is_open:
                obs["problems"].append(("object_unopened", "%s: the object was open before the in-place call and is not "
                                        "open after it" % tag))
            if rk == 4:
                obs["problems"].append(("object_truncated", "%s: the file under the object's memmap was truncated" % tag))
            if rk == 3 and sr.is_open:
                obs["problems"].append(("object_raw_closed", "%s: is_open is True, file_bin is %s, but the raw reader is closed" % (
                    tag, Path(sr.file_bin).suffix)))
            elif rk in (1, 2) and tuple(sr.shape) == (n, nc):
                try:
                    bad = [str(sel) for sel, rv in zip(sels, refv)
                           if not (np.array(sr[sel]).shape == rv.shape and np.array_equal(np.array(sr[sel]), rv))]
                    if not np.array_equal(np.array(sr._raw[0:n]), D):
                        bad.append("_raw[0:n]")
                except Exception as e:
                    bad = ["raised %r" % (e,)]
                if bad:
                    obs["problems"].append(("object_values", "%s: reads differ from the original: %s" % (tag, bad[:3])))
        # fresh readers afterwards, through every entry point that exists, with the same constructor options:
        # same shape / ns / rl / values for x.bin, x.cbin and x.meta — whatever the meta file claims
        obs["meta_file"] = 0
        if sr is not None:
            entries = [q for q in (b, b.with_suffix(".cbin"), b.with_suffix(".meta")) if q.exists()]
            for path in entries:
                for opn in (True, False):
                    try:
                        s2 = spikeglx.Reader(str(path) if as_str else path, open=opn, ignore_warnings=iw, sort=sort)
                        if not opn:
                            s2.open()
                        if path.suffix == ".meta" and opn:
                            obs["meta_file"] = {".bin": 1, ".cbin": 2}.get(Path(s2.file_bin).suffix, 9) if s2.file_bin else 0
                        if tuple(s2.shape) != (n, nc) or int(s2.ns) != n or abs(s2.rl - n / FS) > 1e-12 * max(1.0, n / FS):
                            obs["problems"].append(("transparent_shape", "a fresh Reader(%s, open=%s, ignore_warnings=%s) "
                                                    "after the sequence has shape %s, ns %s, rl %r; the recording is %s" % (
                                                        path.suffix, opn, iw, tuple(s2.shape), s2.ns, s2.rl, (n, nc))))
                        elif not np.array_equal(np.array(s2[:, :]), refv[0]) or not np.array_equal(np.array(s2._raw[0:n]), D):
                            obs["problems"].append(("transparent_values", "a fresh Reader(%s) after the sequence reads other "
                                                    "values than the original" % path.suffix))
                        s2.close()
                    except Exception as e:
                        obs["problems"].append(("object_fresh", "a fresh Reader(%s, open=%s) after the sequence raised %r" % (
                            path.suffix, opn, e)))
            try:
                sr.close()
            except Exception:
                pass
    finally:
        lg.removeHandler(cap)
        lg.setLevel(old[0])
        lg.propagate = old[1]
        logging.disable(old[2])
    return obs


OBJ_OPS = ["open()", "compress_file(keep_original=True)", "compress_file(keep_original=False)",
           "decompress_file(keep_original=True)", "decompress_file(keep_original=False)",
           "decompress_to_scratch(scratch_dir)", "decompress_to_scratch()", "Reader(..., open=False)"]


def enc_obj_in(nc, n, zc, ns0, f0, ops, iw=False):
    return [3, n, nc, zc, n, ns0, f0, int(iw)] + list(ops)


def enc_obj_out(obs):
    out = [len(obs["steps"])]
    for st in obs["steps"]:
        out += st
    return out + [obs["meta_file"]]


def gen_object_sequences(ctx):
    rng = ctx.rng
    fixed = [(2, [0, 4, 0]), (2, [0, 4, 0, 2, 0, 4, 0]), (1, [0, 2, 0, 4, 0, 2, 0]), (1, [0, 2, 4, 0]), (2, [0, 5, 4, 0]),
             (2, [0, 5, 0, 3, 4, 0]), (1, [0, 1, 2, 0, 3, 0, 4, 0]), (2, [0, 3, 0, 4, 2, 0]), (1, [0, 5, 4, 1, 0]),
             (2, [0, 2, 1, 4, 4, 0, 5]), (2, [0, 5, 2, 0, 4, 5]), (2, [0, 6, 4, 6, 2, 0]), (1, [0, 6, 5, 2, 6, 0, 5]),
             (2, [0, 6, 0, 4, 0]), (2, [0, 4, 5, 6]),
             # constructor options x entry points: short sequences leaving bin, cbin or both behind
             (1, [0]), (2, [0]), (1, [7, 0]), (2, [7, 0]), (1, [0, 1]), (2, [0, 3]), (1, [7, 1, 0]), (2, [7, 3, 0]),
             (2, [7, 4, 0]), (1, [7, 2, 0]), (2, [7, 5, 0, 6])]
    seqs = list(fixed)
    for _ in range(40 if not ctx.thorough() else 400):
        ln = rng.randrange(2, 8)
        seqs.append((rng.choice([1, 2]), [rng.choice([0, 0, 7])] + [rng.choice([0, 0, 1, 2, 2, 3, 4, 4, 5, 6]) for _ in range(ln)]))
    return seqs


# --------------------------------------------------------------------------
# kind 0: resolution
# --------------------------------------------------------------------------
SPELLINGS = ["absolute", "relative_to_cwd", "bare_name_in_cwd", "through_symlinked_folder", "symlinked_files",
             "dotdot_components", "relative_dot_slash"]


def spell(d, name, spelling):
    """(path string as the caller spells it, cwd to run in or None) for file `name` of folder d."""
    d = Path(d)
    if spelling == "absolute":
        return str(d / name), None
    if spelling == "relative_to_cwd":
        return str(Path(d.name) / name), d.parent
    if spelling == "bare_name_in_cwd":
        return name, d
    if spelling == "relative_dot_slash":
        return "./" + name, d
    if spelling == "through_symlinked_folder":
        link = d.parent / (d.name + "_link")
        if not link.exists():
            link.symlink_to(d, target_is_directory=True)
        return str(link / name), None
    if spelling == "symlinked_files":
        ld = d.parent / (d.name + "_filelinks")
        ld.mkdir(exist_ok=True)
        for f in d.iterdir():
            if f.is_file() and not (ld / f.name).exists():
                (ld / f.name).symlink_to(f)
        return str(ld / name), None
    if spelling == "dotdot_components":
        return str(d / ".." / d.name / name), None
    raise ValueError(spelling)


UUIDS = {"bin": "a976e418-c8b8-4d24-be47-d05120b18341", "cbin": "b1c2d3e4-0000-4d24-be47-d05120b18342",
         "ch": "c0ffee00-1111-4d24-be47-d05120b18343", "meta": "deadbeef-2222-4d24-be47-d05120b18344"}
# dataset-UUID naming layouts _get_companion_file knows how to cross (ONE cache / SDSC): which files carry a UUID
LAYOUTS = {"plain": (), "shared_uuid": ("bin", "cbin", "ch", "meta"), "distinct_uuids": ("bin", "cbin", "ch", "meta"),
           "uuid_on_data_only": ("bin", "cbin"), "uuid_on_companions_only": ("ch", "meta")}


def layout_paths(d, stem, layout):
    fp = scenario_paths(d, stem)
    for k in LAYOUTS[layout]:
        u = UUIDS["bin"] if layout == "shared_uuid" else UUIDS[k]
        fp[k] = Path(d) / ("%s.%s%s" % (stem, u, SUFFIX[k]))
    return fp


def resolve_case(world, d, eb, ec, em, ech, entry, spelling="absolute", as_str=False, layout="plain"):
    """Reader(<entry point, spelled in a given way>): which data file it settles on (compared with the expected
    file by os.path.samefile, not by spelling), outcome class, shape and values against the recording."""
    spikeglx, _ = _imports()
    d = Path(d)
    d.mkdir(parents=True, exist_ok=True)
    fp = layout_paths(d, world.stem, layout)
    if eb:
        fp["bin"].write_bytes(world.orig[1])
    if ec:
        fp["cbin"].write_bytes(world.comp[1, 1])
    if ech:
        fp["ch"].write_bytes(world.hdr[1, 1].encode())
    if em:
        fp["meta"].write_text(world.meta[1])
    target = fp[["bin", "cbin", "meta"][entry]]
    pstr, cwd = spell(d, target.name, spelling)
    arg = pstr if as_str else Path(pstr)
    kw = {} if em else dict(nc=world.nc, ns=world.ns, fs=FS)
    obs = {"problems": []}
    # the model's existence inputs: since f538cdf every lookup of the constructor (data files from the .meta entry
    # point, .meta and .ch companions) goes through the UUID-aware _get_companion_file, so they are plain existence
    obs["seen"] = [eb, ec, em, ech]
    old_cwd = os.getcwd()
    try:
        if cwd is not None:
            os.chdir(cwd)
        try:
            sr = spikeglx.Reader(arg, **kw)
        except FileNotFoundError:
            return dict(obs, file=-1, outcome=4)
        except AttributeError:
            return dict(obs, file=-1, outcome=5)
        except Exception as e:
            return dict(obs, file=-1, outcome=90, exc=repr(e))
        fb = sr.file_bin
        obs["file"] = 0 if fb is None else {".bin": 1, ".cbin": 2}.get(Path(fb).suffix, 9)
        if fb is not None:
            want = fp["bin"] if obs["file"] == 1 else fp["cbin"] if obs["file"] == 2 else None
            try:
                same = want is not None and os.path.samefile(str(fb), str(want))
            except OSError:
                same = False
            if not same:
                obs["problems"].append("Reader(%r) settled on %s, which is not a data file of this recording" % (pstr, fb))
        if fb is None:
            obs["outcome"] = 3
        else:
            obs["outcome"] = 2 if sr.is_mtscomp else 1
            try:
                ok = tuple(sr.shape) == (world.ns, world.nc) and np.array_equal(sr._raw[:], world.D[1]) and \
                    np.array(sr[:, :]).shape == (world.ns, world.nc)
            except Exception as e:
                ok = False
                obs["problems"].append("opened through %r but unreadable: %r" % (pstr, e))
            if not ok:
                obs["problems"].append("opened through %r but shape %s / content differ from the recording %s" % (
                    pstr, tuple(sr.shape) if hasattr(sr, "shape") else None, (world.ns, world.nc)))
            # a compressed recording that the reader opened must also verify and decompress with the same companions,
            # whatever the naming layout; in place, the header that is removed is the one that was used
            if ok and sr.is_mtscomp and em:
                # the folder as the reader sees it (the folder of links for the symlinked-files spelling)
                edir = Path(os.path.abspath(os.path.join(str(cwd) if cwd is not None else ".", os.path.dirname(pstr))))
                ecbin, ech_ = edir / fp["cbin"].name, edir / fp["ch"].name
                try:
                    if sr.verify_hash() is not True:
                        obs["problems"].append("verify_hash() of the opened compressed recording is not True")
                    got = sr.decompress_to_scratch(scratch_dir=d / "scratch")
                    if Path(got).read_bytes() != world.orig[1]:
                        obs["problems"].append("decompress_to_scratch of the opened recording is not the original binary")
                    got = sr.decompress_file(keep_original=True, out=d / "decompressed_copy.bin", n_threads=1)
                    if Path(got).read_bytes() != world.orig[1] or not ecbin.exists() or not ech_.exists():
                        obs["problems"].append("decompress_file(keep_original=True) did not produce the original binary "
                                               "next to the intact pair")
                    others = {q.name for q in edir.iterdir() if q.is_file()} - {ecbin.name, ech_.name}
                    got = sr.decompress_file(keep_original=False, overwrite=True, n_threads=1)
                    after = {q.name for q in edir.iterdir() if q.is_file()}
                    if Path(got).read_bytes() != world.orig[1]:
                        obs["problems"].append("decompress_file(keep_original=False) did not produce the original binary")
                    if os.path.lexists(ecbin) or os.path.lexists(ech_):
                        obs["problems"].append("decompress_file(keep_original=False) left %s behind" % [
                            q.name for q in (ecbin, ech_) if os.path.lexists(q)])
                    if not others <= after:
                        obs["problems"].append("decompress_file(keep_original=False) removed other files: %s" % sorted(others - after))
                    if not os.path.samefile(str(sr.file_bin), str(got)) or tuple(sr.shape) != (world.ns, world.nc) or \
                            not sr.is_open or not np.array_equal(sr._raw[:], world.D[1]):
                        obs["problems"].append("after decompress_file(keep_original=False) the reader does not expose the "
                                               "recording on the new binary")
                except Exception as e:
                    obs["problems"].append("Reader(%r) opened the compressed recording (naming %s) but verify / decompress "
                                           "raised %s %r" % (pstr, layout, type(e).__name__, e))
            sr.close()
        return obs
    finally:
        os.chdir(old_cwd)


def model_file_code(obs):
    return obs["file"]


# --------------------------------------------------------------------------
BREADCRUMB = [None]


def _crumb(desc):
    """Remember (on disk) which case is being exercised, so that if the implementation takes the interpreter
    down (SIGBUS on a truncated memmap, SIGSEGV) the parent can name the failing input."""
    if BREADCRUMB[0] is not None:
        try:
            Path(BREADCRUMB[0]).write_text(json.dumps(desc, default=str)[:200000])
        except Exception:
            pass


def run(ctx):
    # only C02_cbin_shape_eq_bin_shape (joint with C11's Flocq model) uses the stdlib axioms of the reals
    common.proof_obligations(ctx, whitelist=sorted(common.STDLIB_AXIOMS))
    root = common.tmpdir("C02_run_")
    try:
        res = _exercise_in_child(ctx, root)
        inputs, outputs, descr = res["inputs"], res["outputs"], res["descr"]
        dist, nontrivial, samples = res["dist"], res["nontrivial"], res["samples"]
        if inputs:
            common.correspondence(ctx, PROP, HEADER, inputs, outputs, lambda i: descr[i], n_kernel=80)
    finally:
        shutil.rmtree(root, ignore_errors=True)
    return _finish(ctx, inputs, dist, nontrivial, samples)


def _exercise_in_child(ctx, root):
    """All calls into the implementation happen in a forked child: a crash of the interpreter there (signal) or a
    dead-lock is a verdict about the code (failing input = the case being exercised), not a crash of the check."""
    out = Path(root) / "result.pickle"
    crumb = Path(root) / "current_case.json"
    budget = 3300 if ctx.thorough() else 1500
    sys_stdout_flush()
    pid = os.fork()
    if pid == 0:
        code = 0
        try:
            BREADCRUMB[0] = str(crumb)
            try:
                res = _exercise(ctx, root)
            except GiveUp:
                res = {"inputs": [], "outputs": [], "descr": [], "dist": {"gave_up_after_two_hangs": 1},
                       "nontrivial": set(), "samples": []}
            res.update(failures=ctx.oracle_failures, disagreements=ctx.disagreements, measurements=ctx.measurements)
            with open(out, "wb") as f:
                pickle.dump(res, f)
        except BaseException:      # noqa
            import traceback
            traceback.print_exc()
            code = 3
        finally:
            sys_stdout_flush()
            _save_coverage()
            os._exit(code)
    t0 = time.time()
    status = None
    while time.time() - t0 < budget:
        wpid, st = os.waitpid(pid, os.WNOHANG)
        if wpid == pid:
            status = st
            break
        time.sleep(0.2)
    if status is None:
        os.kill(pid, signal.SIGKILL)
        os.waitpid(pid, 0)
    empty = {"inputs": [], "outputs": [], "descr": [], "dist": {}, "nontrivial": set(), "samples": []}
    if status is not None and os.WIFEXITED(status) and os.WEXITSTATUS(status) == 0 and out.exists():
        with open(out, "rb") as f:
            res = pickle.load(f)
        ctx.oracle_failures.extend(res.pop("failures"))
        ctx.disagreements.extend(res.pop("disagreements"))
        ctx.measurements.update(res.pop("measurements"))
        return res
    try:
        desc = json.loads(crumb.read_text())
    except Exception:
        desc = {"kind": "unknown"}
    if status is None:
        what = "the implementation did not return within %d s (dead-lock or endless loop) while this case was exercised" % budget
    elif os.WIFSIGNALED(status):
        what = "the implementation took the interpreter down (signal %d) while this case was exercised" % os.WTERMSIG(status)
    else:
        what = "the process exercising the implementation ended abnormally (exit %d) on this case" % os.WEXITSTATUS(status)
    ctx.fail(what, desc, {"kind": "interpreter_crash"})
    return empty


def _save_coverage():
    """tools/cov.py runs the check under coverage.py; a child that leaves through os._exit must save its data itself."""
    try:
        import coverage
        cov = coverage.Coverage.current()
        if cov is not None:
            cov.stop()
            cov.save()
    except Exception:
        pass


def sys_stdout_flush():
    import sys
    sys.stdout.flush()
    sys.stderr.flush()


def _exercise(ctx, root):
    rng = ctx.rng
    inputs, outputs, descr = [], [], []
    dist = {"codec": 0, "resolve": 0, "fs_compress": 0, "fs_decompress": 0, "fs_scratch": 0, "faulted": 0,
            "fault_free": 0, "stale_files": 0, "nc_ge_384": 0, "last_chunk_short": 0, "single_chunk": 0,
            "outcome_done": 0, "outcome_raised": 0, "outcome_failed": 0}
    nontrivial = set()
    samples = []
    try:
        # ------------------------------------------------------------ codec
        shapes = []
        for cs in ([1, 2, 3, 4, 7] if not ctx.thorough() else list(range(1, 10))):
            for ns in sorted({1, cs - 1, cs, cs + 1, 2 * cs - 1, 2 * cs, 2 * cs + 1, 3 * cs + rng.randrange(0, cs + 1)}):
                if ns >= 1:
                    shapes.append((rng.choice([1, 1, 2, 3, 4, 5, 7]), ns, cs))
        for nc in (384, 385, rng.randrange(8, 384), rng.randrange(8, 384)):
            cs = rng.choice([2, 3, 5])
            shapes.append((nc, rng.choice([cs - 1, cs + 1, 2 * cs, 2 * cs + 1, 3 * cs - 1]), cs))
        for _ in range(60 if not ctx.thorough() else 600):
            cs = rng.randrange(1, 13)
            k = rng.randrange(0, 5)
            shapes.append((rng.choice([1, 2, 3, 4, 6, 8, 16, rng.randrange(1, 40)]),
                           max(1, k * cs + rng.choice([-1, 0, 1, rng.randrange(0, cs)])), cs))
        if ctx.thorough():
            shapes += [(nc, rng.randrange(1, 14), rng.randrange(1, 6)) for nc in range(1, 386, 7)]
        for i, (nc, ns, cs) in enumerate(shapes):
            kind = rng.choice(["full", "full", "extremes", "alternate", "const", "ramp", "small"])
            D = gen_data(rng, ns, nc, kind)
            d = root / ("codec%d" % i)
            d.mkdir()
            stem = rng.choice(["rec_g0_t0.nidq", "x", "x.imec0.ap", "probe00.a.b.lf"] + TRICKY_STEMS)
            as_str = rng.random() < 0.4
            desc = {"kind": "codec", "nc": nc, "ns": ns, "chunk_samples": cs, "content": kind, "stem": stem,
                    "str_path": as_str, "data": [int(x) for x in D.reshape(-1)][:4000]}
            nthr = rng.choice([1, 1, 2, 3])
            obs = guarded(ctx, "compress/decompress raised", desc, {"kind": "codec_exception"},
                          lambda: codec_case(d, nc, ns, cs, D, nthr, stem, as_str))
            shutil.rmtree(d, ignore_errors=True)
            if obs is None:
                continue
            for p in obs["problems"]:
                ctx.fail(p, desc, {"kind": "codec", "clause": p.split()[0]})
            inputs.append(enc_codec_in(nc, ns, cs, D))
            outputs.append(enc_codec_out(obs))
            descr.append(desc)
            dist["codec"] += 1
            dist["nc_ge_384"] += nc >= 384
            dist["last_chunk_short"] += ns % cs != 0
            dist["single_chunk"] += ns <= cs
            if ns > cs:
                nontrivial.add(("codec", nc, ns, cs, kind))
            if i % 40 == 0:
                samples.append({k: desc[k] for k in ("kind", "nc", "ns", "chunk_samples", "content")} |
                               {"chunk_bounds": obs["bounds"]})
        # ------------------------------------------------------------ worlds
        nworlds = 2 if not ctx.thorough() else 6
        for w in range(nworlds):
            # config 1 always has >= 2 chunks; config 2 has other bounds (a single chunk in some worlds)
            cs1 = rng.choice([1, 2, 3, 4])
            mm = rng.choice([2, 3, 4]) if not ctx.thorough() else rng.choice([2, 3, 5, 8])
            ns = mm * cs1 + rng.choice([0, 1]) if cs1 > 1 else mm
            cs2 = rng.choice([cs1 + 1, cs1 + 2, ns, ns + 3])
            nc = rng.choice([1, 2, 3, 5, 385]) if w else 3
            wd = root / ("w%d" % w)
            world = guarded(ctx, "building the reference streams (mtscomp.compress) failed",
                            {"kind": "world", "nc": nc, "ns": ns, "chunk_samples": [cs1, cs2]}, {"kind": "world_exception"},
                            lambda: World(wd, rng, nc, ns, {1: cs1, 2: cs2}))
            if world is None:
                shutil.rmtree(wd, ignore_errors=True)
                continue
            wdesc = {"nc": nc, "ns": ns, "chunk_samples": world.cs, "chunks": world.m, "stem": world.stem}
            # ---------------------------------------------------- resolution: every pattern x entry
            for bits in range(16):
                eb, ec, em, ech = bits & 1, (bits >> 1) & 1, (bits >> 2) & 1, (bits >> 3) & 1
                for entry in range(3):
                    in_domain = em and [eb, ec, em][entry] and (eb or (ec and ech)) and \
                        not (entry == 1 and not ech)
                    k0 = (bits * 3 + entry + w) % len(SPELLINGS)
                    # in-domain cases: every spelling of the path; others: one spelling, rotating
                    combos = [(sp, "plain") for sp in (SPELLINGS if (in_domain or ctx.thorough()) else [SPELLINGS[k0]])]
                    if in_domain or ctx.thorough():
                        combos += [(SPELLINGS[(k0 + j) % len(SPELLINGS)], lay) for j, lay in enumerate(LAYOUTS) if lay != "plain"]
                    for sp, lay in combos:
                        as_str = (bits + entry + SPELLINGS.index(sp)) % 2 == 0
                        d = wd / ("res%d_%d_%s_%s" % (bits, entry, sp, lay))
                        desc = {"kind": "resolve", "world": wdesc, "bin": eb, "cbin": ec, "meta": em, "ch": ech,
                                "entry": [".bin", ".cbin", ".meta"][entry], "spelling": sp, "str_path": as_str,
                                "naming": lay}
                        obs = guarded(ctx, "Reader(%s) could not be observed" % desc["entry"], desc,
                                      {"kind": "resolve_exception"},
                                      lambda: resolve_case(world, d, eb, ec, em, ech, entry, sp, as_str, lay))
                        for extra in (d, wd / (d.name + "_link"), wd / (d.name + "_filelinks")):
                            if extra.is_symlink():
                                extra.unlink()
                            else:
                                shutil.rmtree(extra, ignore_errors=True)
                        if obs is None:
                            continue
                        if in_domain and obs["outcome"] not in (1, 2):
                            ctx.fail("Reader(%s, %s, naming %s) did not open the recording (outcome %s)" % (
                                desc["entry"], sp, lay, obs["outcome"]), desc, {"kind": "resolve"})
                        for p in obs["problems"]:
                            ctx.fail(p, desc, {"kind": "resolve"})
                        seb, sec, sem, sech = obs["seen"]
                        inputs.append([0, seb, sec, sem, sech, entry])
                        outputs.append([max(obs["file"], 0) if obs["outcome"] in (1, 2, 3) else
                                        _model_file(seb, sec, entry), obs["outcome"]])
                        dist["resolve_naming_" + lay] = dist.get("resolve_naming_" + lay, 0) + 1
                        descr.append(desc)
                        dist["resolve"] += 1
                        dist["resolve_" + sp] = dist.get("resolve_" + sp, 0) + 1
                        if in_domain:
                            nontrivial.add(("resolve", bits, entry, sp, lay))
            # ---------------------------------------------------- procedures with faults
            scs = gen_scenarios(ctx, world)
            if not ctx.thorough():
                # quick: every scenario fault-free; all fault positions for a rotating third of them
                pick = set(range(w, len(scs), 2))
            else:
                pick = set(range(len(scs)))
            for si, sc in enumerate(scs):
                faults = [None]
                sc0 = dict(sc, fault=None)
                d = wd / ("s%d_ff" % si)
                pdesc = {"kind": "procedure", "op": OPS[sc["op"]], "world": wdesc,
                         "scenario": {k: sc0[k] for k in ("op", "r", "c", "B", "keep", "chk", "ow", "sd", "fault", "init", "stale")}}
                obs0 = guarded(ctx, "%s could not be observed" % OPS[sc["op"]], pdesc, {"kind": "procedure_exception"},
                               lambda: fs_case(world, d, sc0))
                shutil.rmtree(d, ignore_errors=True)
                if obs0 is None:
                    continue
                runs = [(sc0, obs0)]
                if si in pick:
                    for k in range(len(obs0["events"]) + (1 if obs0["outcome"] == 2 else 0)):
                        sck = dict(sc, fault=k)
                        d = wd / ("s%d_f%d" % (si, k))
                        pdk = dict(pdesc, scenario=dict(pdesc["scenario"], fault=k))
                        ok_ = guarded(ctx, "%s (fault %d) could not be observed" % (OPS[sc["op"]], k), pdk,
                                      {"kind": "procedure_exception"}, lambda: fs_case(world, d, sck))
                        shutil.rmtree(d, ignore_errors=True)
                        if ok_ is not None:
                            runs.append((sck, ok_))
                for scx, obs in runs:
                    desc = {"kind": "procedure", "op": OPS[scx["op"]], "world": wdesc,
                            "scenario": {k: scx[k] for k in ("op", "r", "c", "B", "keep", "chk", "ow", "sd", "fault",
                                                             "init", "stale")}}
                    for tag, p in obs["problems"]:
                        ctx.fail(p, desc, {"kind": tag, "op": OPS[scx["op"]]})
                    inputs.append(enc_fs_in(world, scx))
                    outputs.append(enc_fs_out(obs))
                    descr.append(desc)
                    dist[["fs_compress", "fs_decompress", "fs_scratch"][scx["op"]]] += 1
                    dist["faulted" if scx["fault"] is not None else "fault_free"] += 1
                    dist["stale_files"] += scx["stale"] != "clean"
                    dist[["outcome_done", "outcome_raised", "outcome_failed"][obs["outcome"]]] += 1
                    if scx["fault"] is not None or scx["stale"] != "clean":
                        nontrivial.add(("fs", w, si, scx["fault"]))
                    if obs.get("window"):
                        ctx.measurements["pair_commit_window_runs"] = ctx.measurements.get("pair_commit_window_runs", 0) + 1
                    if len(samples) < 8 and scx["fault"] == 2 and scx["stale"] != "clean":
                        samples.append({"kind": "procedure", "op": OPS[scx["op"]], "stale": scx["stale"],
                                        "fault_at_call": scx["fault"], "keep_original": scx["keep"],
                                        "events": obs["events"], "outcome": obs["outcome"],
                                        "final": obs["final"]})
                gc.collect()
            shutil.rmtree(wd, ignore_errors=True)
        # ------------------------------------------------------------ names of temporaries and published files
        for i, stem in enumerate(TRICKY_STEMS + ["x", "a.b.c.d", "rec_g0_t0.imec0.ap"]):
            D = gen_data(rng, 7, 2, "full")
            d = root / ("names%d" % i)
            desc = {"kind": "names", "stem": stem, "source": stem + ".bin"}
            obs = guarded(ctx, "compress_file on %s.bin raised" % stem, desc, {"kind": "names_exception"},
                          lambda: names_case(d, stem, D, 3))
            shutil.rmtree(d, ignore_errors=True)
            if obs is None:
                continue
            for p in obs["problems"]:
                ctx.fail(p, desc, {"kind": "names"})
            inputs.append([6] + [ord(ch) for ch in obs["name"]])
            out_ = []
            for nm in obs["names"]:
                out_ += [len(nm)] + [ord(ch) for ch in nm]
            outputs.append(out_)
            descr.append(desc)
            dist["names"] = dist.get("names", 0) + 1
            nontrivial.add(("names", stem))
        # ------------------------------------------------------------ meta-less flat binaries; option variants
        flat_shapes = [(384, 1), (384, 3), (385, 1), (385, 3), (385, 384), (3, 11), (1, 768), (2, 385), (5, 77), (3, 128)]
        if ctx.thorough():
            flat_shapes += [(384, 385), (385, 768), (7, 55), (1, 770), (1, 769), (6, 64), (10, 77)]
        for i, (ncx, n) in enumerate(flat_shapes):
            D = gen_data(rng, n, ncx, rng.choice(["full", "small"]))
            cs = rng.choice([1, 2, 3]) if n < 50 else rng.choice([50, 97, 128])
            d = root / ("flat%d" % i)
            desc = {"kind": "flat", "nc": ncx, "n": n, "chunk_samples": cs}
            obs = guarded(ctx, "meta-less reader raised", desc, {"kind": "flat_exception"},
                          lambda: flat_case(d, ncx, n, D, cs))
            shutil.rmtree(d, ignore_errors=True)
            if obs is None:
                continue
            for tag, p in obs["problems"]:
                ctx.fail(p, desc, {"kind": tag})
            inputs.append([4, obs["size"]])
            outputs.append(obs["guess"])
            descr.append(desc)
            for ns_a, (rb_, rc_) in obs["announced"]:
                for fcode, r_ in ((1, rb_), (2, rc_)):
                    inputs.append([5, n, ncx, ns_a, fcode])
                    outputs.append(list(r_))
                    descr.append(dict(desc, announced_ns=ns_a, file=[".bin", ".cbin"][fcode - 1]))
            dist["flat"] = dist.get("flat", 0) + 1
            nontrivial.add(("flat", ncx, n))
        for i, variant in enumerate(["int32", "uint16", "float32", "opt_spatial", "opt_notime", "opt_corder", "opt_level9",
                                     "opt_both", "imec_meta", "explicit_companions"]):
            d = root / ("opt%d" % i)
            desc = {"kind": "options", "variant": variant}
            obs = guarded(ctx, "option variant %s raised" % variant, desc, {"kind": "options_exception"},
                          lambda: options_case(d, rng, variant))
            shutil.rmtree(d, ignore_errors=True)
            if obs is None:
                continue
            for tag, p in obs["problems"]:
                ctx.fail(p, desc, {"kind": tag})
            dist["options_" + variant] = 1
        # ------------------------------------------------------------ one Reader object, sequences of calls
        for i, (f0, ops) in enumerate(gen_object_sequences(ctx)):
            cs = rng.choice([2, 3, 4, 5])
            n = max(1, rng.choice([1, 2, 3, 4]) * cs + rng.choice([-1, 0, 1, 2]))
            nc = rng.choice([1, 2, 3, 5, 8]) if i % 17 else 385
            ns0 = n if rng.random() < 0.55 else max(1, n + rng.choice([1, 2, 7, -1, -2]))
            iw, sort = rng.random() < 0.5, rng.random() < 0.7
            D = gen_data(rng, n, nc, rng.choice(["full", "small", "extremes"]))
            d = root / ("obj%d" % i)
            stem = rng.choice(["rec_g0_t0.nidq", "x", "x.imec0.ap", "_spikeglx_ephysData_g0_t0.imec1.lf", "a.b.c.d"] + TRICKY_STEMS)
            as_str = rng.random() < 0.4
            desc = {"kind": "object", "nc": nc, "n": n, "chunk_samples": cs, "meta_ns": ns0, "stem": stem, "str_path": as_str,
                    "ignore_warnings": iw, "sort": sort,
                    "start": [".bin", ".cbin"][f0 - 1], "ops": ops, "calls": [OBJ_OPS[o] for o in ops]}
            obs = guarded(ctx, "sequence on one Reader raised", desc, {"kind": "object_exception"},
                          lambda: object_case(d, nc, n, cs, ns0, f0, ops, D, stem, as_str, iw, sort))
            shutil.rmtree(d, ignore_errors=True)
            if obs is None:
                continue
            for tag, p in obs["problems"]:
                ctx.fail(p, desc, {"kind": tag})
            if len(obs["steps"]) != len(ops):
                continue
            inputs.append(enc_obj_in(nc, n, obs["zc"], ns0, f0, ops, iw))
            dist["object_meta_wrong"] = dist.get("object_meta_wrong", 0) + (ns0 != n)
            dist["object_ignore_warnings"] = dist.get("object_ignore_warnings", 0) + iw
            outputs.append(enc_obj_out(obs))
            descr.append(desc)
            dist["object_sequences"] = dist.get("object_sequences", 0) + 1
            dist["object_calls"] = dist.get("object_calls", 0) + len(ops)
            ctx.measurements["object_states_with_stale_nbytes"] = \
                ctx.measurements.get("object_states_with_stale_nbytes", 0) + obs["stale_nbytes"]
            if any(o in (2, 4) for o in ops) or ns0 != n:
                nontrivial.add(("object", f0, tuple(ops), nc, n, cs, ns0, iw))
            if i in (0, 2):
                samples.append({"kind": "object", "start": desc["start"], "calls": desc["calls"],
                                "states[raised,file,nbytes,ns,raw,warned,bin,cbin,scratch_bin]": obs["steps"]})
    finally:
        pass
    return {"inputs": inputs, "outputs": outputs, "descr": descr, "dist": dist, "nontrivial": nontrivial,
            "samples": samples}


def _finish(ctx, inputs, dist, nontrivial, samples):
    return common.finish(
        ctx, TRUSTED,
        rule="(a) codec: random int16 matrices (full range, extremes, alternating +-32768, constant, ramp, small) with "
             "1..385 channels, sample counts around multiples of tiny chunk sizes, real compress_file + decompress_file; "
             "(b) resolution: all 16 existence patterns of {bin,cbin,meta,ch} x 3 entry paths per world, the path spelled "
             "absolutely / relative to a changed cwd / as a bare name / through a symlinked folder / through symlinked "
             "files / with .. components / with ./, str and Path (every spelling for the in-domain cases); (c) procedures: "
             "compress_file / decompress_file / decompress_to_scratch on directories with and without stale files, "
             "fault-free and with a fault injected at each instrumented call. Each case runs the real code and the Coq "
             "model. Non-trivial = codec case with more than one chunk, in-domain resolution case, or procedure run "
             "with a fault or a stale file, or object sequence containing an in-place call; distinct by parameters. "
             "(d) one Reader object through fixed and random sequences of open()/compress_file/decompress_file/"
             "decompress_to_scratch: cached fields after every call vs the model, shape and chunk-seam values vs the "
             "original, fresh Readers afterwards",
        samples=samples, evaluations=len(inputs), distinct_nontrivial=len(nontrivial),
        extra={"input_distribution": dist, "exhaustive": False},
        assumptions=["zlib.decompress(zlib.compress(b)) == b", "rename within one directory is atomic",
                     "a fault is an exception raised by an instrumented call before it has any effect"])


def _model_file(eb, ec, entry):
    """file code to put in the comparison when the constructor raised (nothing to observe): the model's own."""
    if entry == 0:
        return 1
    if entry == 1:
        return 2
    return 1 if eb else (2 if ec else 0)


def replay(ctx, data):
    inp = data.get("input") or (data.get("correspondence_disagreements") or [{}])[0].get("input")
    if not inp:
        print(json.dumps(data, indent=1)[:3000])
        return 1
    root = common.tmpdir("C02_replay_")
    rc = 0
    try:
        if inp.get("kind") == "codec" and len(inp.get("data", [])) == inp["nc"] * inp["ns"]:
            D = np.array(inp["data"], dtype=np.int16).reshape(inp["ns"], inp["nc"])
            obs = codec_case(root, inp["nc"], inp["ns"], inp["chunk_samples"], D, 1, inp.get("stem", "rec_g0_t0.nidq"),
                             inp.get("str_path", False))
            print("implementation: bounds", obs["bounds"], "problems", obs["problems"])
            ids = common.coq_mismatches(PROP, HEADER, [common.flat_cases_term(
                0, enc_codec_in(inp["nc"], inp["ns"], inp["chunk_samples"], D), enc_codec_out(obs))])
            print("kernel-evaluated model agrees with implementation:", not ids)
            rc = 1 if (obs["problems"] or ids) else 0
        elif inp.get("kind") == "names":
            obs = names_case(root / "n", inp["stem"], gen_data(ctx.rng, 7, 2, "full"), 3)
            print("implementation: names", obs["names"], "\n problems", obs["problems"])
            out_ = []
            for nm in obs["names"]:
                out_ += [len(nm)] + [ord(ch) for ch in nm]
            ids = common.coq_mismatches(PROP, HEADER, [common.flat_cases_term(0, [6] + [ord(ch) for ch in obs["name"]], out_)])
            print("kernel-evaluated model agrees with implementation:", not ids)
            rc = 1 if (obs["problems"] or ids) else 0
        elif inp.get("kind") == "flat":
            D = gen_data(ctx.rng, inp["n"], inp["nc"], "full")
            obs = flat_case(root / "f", inp["nc"], inp["n"], D, inp["chunk_samples"])
            print("implementation:", {k: obs[k] for k in obs if k != "problems"}, "\n problems", obs["problems"])
            ids = common.coq_mismatches(PROP, HEADER, [common.flat_cases_term(0, [4, obs["size"]], obs["guess"])])
            print("kernel-evaluated model agrees with implementation:", not ids)
            rc = 1 if (obs["problems"] or ids) else 0
        elif inp.get("kind") == "options":
            obs = options_case(root / "o", ctx.rng, inp["variant"])
            print("problems", obs["problems"])
            rc = 1 if obs["problems"] else 0
        elif inp.get("kind") == "object":
            D = gen_data(ctx.rng, inp["n"], inp["nc"], "full")
            f0 = [".bin", ".cbin"].index(inp["start"]) + 1
            obs = object_case(root / "o", inp["nc"], inp["n"], inp["chunk_samples"], inp["meta_ns"], f0, inp["ops"], D,
                              inp.get("stem", "rec_g0_t0.nidq"), inp.get("str_path", False),
                              inp.get("ignore_warnings", False), inp.get("sort", True))
            print("calls:", inp["calls"])
            print("implementation: states [raised,file,nbytes,ns,raw,warned,bin,cbin,scratch_bin]", obs["steps"],
                  "\n problems", obs["problems"])
            ids = [0]
            if len(obs["steps"]) == len(inp["ops"]):
                ids = common.coq_mismatches(PROP, HEADER, [common.flat_cases_term(
                    0, enc_obj_in(inp["nc"], inp["n"], obs["zc"], inp["meta_ns"], f0, inp["ops"],
                                  inp.get("ignore_warnings", False)), enc_obj_out(obs))])
            print("kernel-evaluated model agrees with implementation:", not ids)
            rc = 1 if (obs["problems"] or ids) else 0
        elif inp.get("kind") in ("procedure", "resolve"):
            w = inp["world"]
            rng = ctx.rng
            world = World(root / "w", rng, w["nc"], w["ns"], {int(k): v for k, v in w["chunk_samples"].items()})
            world_stem = w["stem"]
            if world.stem != world_stem:
                world.stem = world_stem
            if inp["kind"] == "resolve":
                e = [".bin", ".cbin", ".meta"].index(inp["entry"])
                obs = resolve_case(world, root / "r", inp["bin"], inp["cbin"], inp["meta"], inp["ch"], e,
                                   inp.get("spelling", "absolute"), inp.get("str_path", False), inp.get("naming", "plain"))
                print("implementation:", obs)
                seen = obs.get("seen", [inp["bin"], inp["cbin"], inp["meta"], inp["ch"]])
                out = [max(obs["file"], 0) if obs["outcome"] in (1, 2, 3) else _model_file(seen[0], seen[1], e),
                       obs["outcome"]]
                ids = common.coq_mismatches(PROP, HEADER, [common.flat_cases_term(0, [0] + list(seen) + [e], out)])
                print("kernel-evaluated model agrees with implementation:", not ids)
                rc = 1 if (obs["problems"] or ids or obs["outcome"] not in (1, 2)) else 0
            else:
                sc = inp["scenario"]
                obs = fs_case(world, root / "s", sc)
                print("implementation: outcome", obs["outcome"], obs.get("exc"), "\n events", obs["events"],
                      "\n final", obs["final"], "\n problems", obs["problems"])
                ids = common.coq_mismatches(PROP, HEADER, [common.flat_cases_term(
                    0, enc_fs_in(world, sc), enc_fs_out(obs))])
                print("kernel-evaluated model agrees with implementation:", not ids)
                rc = 1 if (obs["problems"] or ids) else 0
        else:
            print(json.dumps(data, indent=1)[:3000])
            rc = 1
    finally:
        shutil.rmtree(root, ignore_errors=True)
    return rc
