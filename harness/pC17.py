"""C17 — WindowGenerator: proofs in coq/C17, correspondence against ibldsp.utils."""
import json

import numpy as np
import scipy.signal

import common
from common import cz, clist, czlist, copt, ctuple

PROP = "C17"
HEADER = "From Coq Require Import ZArith List.\nImport ListNotations.\nFrom IBL.C17 Require Import Run."
TRUSTED = [
    "Coq 8.16.1 kernel + vm_compute (no native_compute); all C17 theorems: Closed under the global context",
    "hand-written model coq/C17/Model.v of ibldsp.utils.WindowGenerator, tied to /repo/src by this run's correspondence",
    "float64 ceil(float(a)/float(b)) == exact integer ceiling for |a| < 2^52 (modelled exactly; validated on large random triples)",
    "Hann ramp kept symbolic in the splicing theorem; hypothesis w[j]+w[ov-1-j]=1 is the source's own runtime assertion",
    "harness/pC17.py generator, canonicaliser and oracle",
    "extraction (Require Extraction, ExtrOcamlBasic only: bool/option/unit/list/prod/sumbool/sumor + andb/orb inlined; Z, positive kept inductive), harness/driver.ml, ocamlfind ocamlopt; a sample of the same cases is re-evaluated by the kernel (vm_compute)",
]


def impl_observe(ns, nswin, ov, with_splice):
    """Run the real WindowGenerator; everything converted to python ints."""
    from ibldsp.utils import WindowGenerator
    wg = WindowGenerator(ns, nswin, ov)
    obs = {"ns": ns, "nswin": nswin, "ov": ov, "nwin": int(wg.nwin)}
    fl = [(int(a), int(b)) for a, b in wg.firstlast]
    obs["fl"] = fl
    try:
        obs["valid"] = [tuple(int(x) for x in t) for t in wg.firstlast_valid]
    except AssertionError:
        obs["valid"] = None
    ts = wg.tscale(1.0) * 2
    obs["ts"] = [int(round(float(t))) for t in ts]
    obs["ts_exact"] = bool(np.all(ts == np.round(ts)))
    obs["slices"] = [(int(s.start), int(s.stop)) for s in wg.slice]
    if with_splice:
        w = scipy.signal.windows.hann((ov + 1) * 2 + 1, sym=True)[1:ov + 1]
        lut = {float(v): i for i, v in enumerate(w)}
        sp = []
        tot = np.zeros(ns)
        decodable = True
        for first, last, amp in wg.firstlast_splicing:
            codes = []
            for v in amp:
                v = float(v)
                if v == 1.0:
                    codes.append(-1)
                elif v in lut:
                    codes.append(lut[v])
                else:
                    codes.append(-2)
                    decodable = False
            tot[first:last] += amp
            sp.append((int(first), int(last), codes))
        obs["splice"] = sp
        obs["splice_decodable"] = decodable
        obs["splice_sum_ok"] = bool(np.allclose(tot, 1.0, rtol=0, atol=1e-12))
    return obs


def oracle(obs):
    """The property's predicate, evaluated on the implementation's outputs only."""
    ns, nswin, ov = obs["ns"], obs["nswin"], obs["ov"]
    fl = obs["fl"]
    bad = []
    if not fl or fl[0][0] != 0 or fl[-1][1] != ns:
        bad.append("windows do not start at 0 / end at ns")
    for (a0, a1), (b0, b1) in zip(fl, fl[1:]):
        if a1 - b0 != ov or a1 - a0 != nswin or b0 <= a0:
            bad.append("consecutive windows do not overlap by exactly the overlap")
            break
    if any(not (0 <= a < b <= ns) for a, b in fl):
        bad.append("empty or out-of-range window")
    if obs["nwin"] != len(fl):
        bad.append("announced window count %d != produced %d" % (obs["nwin"], len(fl)))
    if obs["slices"] != fl:
        bad.append("slice generator differs from firstlast")
    if obs["ts"] != [a + b - 1 for a, b in fl] or not obs["ts_exact"]:
        bad.append("tscale is not the window centre")
    if ov % 2 == 0:
        v = obs["valid"]
        if v is None:
            bad.append("valid generator refused an even overlap")
        else:
            pos = 0
            okv = len(v) == len(fl)
            for (f, l, fv, lv), (a, b) in zip(v, fl):
                okv = okv and (f, l) == (a, b) and fv == pos and f <= fv < lv <= l
                pos = lv
            if not okv or pos != ns:
                bad.append("valid sub-windows do not partition the signal")
    if "splice" in obs and 2 * ov <= nswin:
        if [(a, b) for a, b, _ in obs["splice"]] != fl:
            bad.append("splicing windows differ from firstlast")
        if not obs["splice_sum_ok"]:
            bad.append("splicing amplitudes do not sum to one")
    return bad


def enc_obs(obs):
    """Same flat encoding as coq/C17/Run.v `run`."""
    out = [obs["nwin"]]
    out += [1, len(obs["fl"])] + [x for t in obs["fl"] for x in t]
    if obs["valid"] is None:
        out += [0]
    else:
        out += [1, len(obs["valid"])] + [x for t in obs["valid"] for x in t]
    out += [1, len(obs["ts"])] + obs["ts"]
    if "splice" in obs:
        out += [1, len(obs["splice"])]
        for f, l, codes in obs["splice"]:
            out += [f, l, len(codes)] + codes
    return out


def enc_inp(obs):
    return [obs["ns"], obs["nswin"], obs["ov"], 1 if "splice" in obs else 0]


def gen_triples(ctx):
    rng = ctx.rng
    triples = []
    # the bounded box of the property: ns <= 400, nswin <= 64, every admissible overlap
    box = [(ns, w, o) for w in range(1, 65) for o in range(0, w) for ns in range(1, 401)]
    if ctx.thorough():
        triples += box
    else:
        off = rng.randrange(37)
        triples += box[off::37]
        # boundary rows always: ns around overlap / window / multiples of the stride
        for w in (1, 2, 3, 4, 7, 10, 12, 16, 33, 64):
            for o in sorted({0, 1, 2, w // 2 - 1, w // 2, w // 2 + 1, w - 2, w - 1}):
                if 0 <= o < w:
                    s = w - o
                    for ns in {1, o - 1, o, o + 1, w - 1, w, w + 1, w + s - 1, w + s, w + s + 1,
                               2 * o - 1, 2 * o, 2 * o + 1, w + 5 * s, w + 5 * s + 1, 400}:
                        if ns >= 1:
                            triples.append((ns, w, o))
    nrand = 20000 if ctx.thorough() else 2500
    for _ in range(nrand):
        kind = rng.random()
        if kind < 0.4:       # realistic: long recordings, big windows, at most a few thousand windows
            w = rng.choice([1024, 4096, 65536, 30000, 2 ** rng.randrange(4, 18), rng.randrange(2, 10 ** 5)])
            o = rng.choice([0, 1, w // 2, w // 2 - 1, w - 1, rng.randrange(0, w), rng.randrange(0, w // 2 + 1)])
            s = w - o
            nw = rng.choice([1, 1, 2, 3, rng.randrange(1, 40), rng.randrange(1, 40), rng.randrange(1, 40),
                             rng.randrange(1, 1500)])
            ns = max(1, w + (nw - 1) * s + rng.choice([-s, -1, 0, 1, rng.randrange(-s, s + 1)]))
        elif kind < 0.7:     # around the short-signal boundaries
            w = rng.randrange(1, 3000)
            o = rng.randrange(0, w)
            ns = max(1, rng.choice([o, w, 2 * o, 1]) + rng.randrange(-2, 3))
        else:
            w = rng.randrange(1, 500)
            o = rng.randrange(0, w)
            ns = rng.randrange(1, 6000)
            if (ns // max(1, w - o)) > 200:
                ns = rng.randrange(1, 200 * (w - o) + 1)
        triples.append((ns, w, max(0, min(o, w - 1))))
    return triples


def run(ctx):
    common.proof_obligations(ctx, whitelist=[])
    triples = gen_triples(ctx)
    seen = set()
    cases = []
    terms = []
    nontrivial = set()
    dist = {"single_window": 0, "short_last": 0, "zero_overlap": 0, "ns_le_overlap": 0,
            "half_or_less_overlap": 0, "spliced": 0, "odd_overlap": 0}
    for (ns, w, o) in triples:
        if (ns, w, o) in seen:
            continue
        seen.add((ns, w, o))
        n_est = max(0, -((-(ns - w)) // (w - o))) + 1
        with_splice = ns <= 3000 and n_est * min(ns, w) <= 40000
        try:
            obs = impl_observe(ns, w, o, with_splice)
        except Exception as e:      # the property says these calls succeed on the whole domain
            ctx.fail("WindowGenerator raised %r" % (e,), {"ns": ns, "nswin": w, "overlap": o},
                     {"kind": "exception"})
            continue
        cid = len(cases)
        cases.append(obs)
        bad = oracle(obs)
        if with_splice and not obs["splice_decodable"]:
            ctx.disagree("splicing amplitude is neither 1 nor a ramp value", {"ns": ns, "nswin": w, "overlap": o})
        for b in bad:
            ctx.fail(b, {"ns": ns, "nswin": w, "overlap": o}, {"kind": b.split()[0]})
        nfl = len(obs["fl"])
        dist["single_window"] += nfl == 1
        dist["short_last"] += nfl > 1 and (obs["fl"][-1][1] - obs["fl"][-1][0]) < w
        dist["zero_overlap"] += o == 0
        dist["ns_le_overlap"] += ns <= o
        dist["half_or_less_overlap"] += 2 * o <= w
        dist["spliced"] += with_splice
        dist["odd_overlap"] += o % 2 == 1
        if nfl > 1:
            nontrivial.add((ns, w, o))
    common.correspondence(
        ctx, PROP, HEADER, [enc_inp(o) for o in cases], [enc_obs(o) for o in cases],
        lambda i: {"ns": cases[i]["ns"], "nswin": cases[i]["nswin"], "overlap": cases[i]["ov"]})
    samples = [{"ns": c["ns"], "nswin": c["nswin"], "overlap": c["ov"], "firstlast": c["fl"][:4],
                "nwin": c["nwin"]} for c in cases[:: max(1, len(cases) // 6)]]
    return common.finish(
        ctx, TRUSTED,
        rule="(ns, nswin, overlap) triples: the box ns<=400 x nswin<=64 x every overlap (all of it in "
             "thorough, a 1-in-37 stride plus boundary rows in quick) and random large triples; each is run "
             "through the real WindowGenerator (nwin, firstlast, firstlast_valid, slice, tscale, "
             "firstlast_splicing) and through the Coq model; non-trivial = more than one window; distinct by triple",
        samples=samples, evaluations=len(cases), distinct_nontrivial=len(nontrivial),
        extra={"input_distribution": dist, "exhaustive": False,
               "box_exhaustive": bool(ctx.thorough())},
        assumptions=["np.ceil on float64 quotient is the exact ceiling for operands below 2^52"])


def replay(ctx, data):
    inp = data.get("input") or (data.get("correspondence_disagreements") or [{}])[0].get("input")
    if not inp:
        print(json.dumps(data, indent=1)[:3000])
        return 1
    ns, w, o = inp["ns"], inp["nswin"], inp["overlap"]
    try:
        obs = impl_observe(ns, w, o, ns <= 5000)
    except Exception as e:
        print("implementation raised:", repr(e))
        return 1
    bad = oracle(obs)
    print("implementation:", {k: (v if not isinstance(v, list) else v[:6]) for k, v in obs.items()})
    print("property clauses failing on the implementation:", bad)
    ids = common.coq_mismatches(PROP, HEADER, [common.flat_cases_term(0, enc_inp(obs), enc_obs(obs))])
    print("kernel-evaluated model agrees with implementation:", not ids)
    return 1 if (bad or ids) else 0
