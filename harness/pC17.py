"""C17 — WindowGenerator: proofs in coq/C17, correspondence against ibldsp.utils.

Three families of cases, all run through the real class and through the Coq model:
  triple    one (ns, nswin, overlap): every API consumed alone AND side by side with other views of
            the same object (zip of views, tscale() inside the loop); splicing amplitudes both as they
            stream and materialised (list(...)) afterwards                    -> Run.v mode 0/1
  schedule  a set of generator views of ONE object advanced in an arbitrary interleaving, with
            tscale() calls in between; per event: output, wg.iw, number of distinct amplitude
            buffers seen so far                                               -> Run.v mode 2
  repr      the triple handed to the constructor as Python int / NumPy signed / unsigned / float
            scalars (all three, or only ns): the object must behave exactly as for the same Python
            ints, nwin included (since repo 01d7a00 the count uses the converted attributes) -> Run.v mode 0
"""
import json
import warnings

import numpy as np
import scipy.signal

import common
from common import cz, clist, czlist, copt, ctuple

PROP = "C17"
HEADER = "From Coq Require Import ZArith List.\nImport ListNotations.\nFrom IBL.C17 Require Import Run."
TRUSTED = [
    "Coq 8.16.1 kernel + vm_compute (no native_compute); C17 theorems: Closed under the global context, except the two "
    "float64 theorems (Flocq 4.1 + Coq Reals: sig_forall_dec, sig_not_dec, functional_extensionality_dep, classic)",
    "hand-written models coq/C17/Model.v (generators) and coq/C17/Object.v (object state machine: shared iw, "
    "amplitude-buffer allocation) of ibldsp.utils.WindowGenerator, tied to /repo/src "
    "by this run's correspondence",
    "Python generator semantics as modelled: creating a generator runs no code; one next() runs to the next yield; "
    "a generator that raised is finished",
    "Python/NumPy float(int), float / float and np.ceil are IEEE-754 binary64 conversion, round-to-nearest-even division and "
    "exact ceiling as formalised by Flocq (BinarySingleNaN.binary_normalize / Bdiv); under that reading the exact integer "
    "ceiling in Model.nwin is a theorem for |ns-nswin|, nswin-overlap < 2^53 (C17_nwin_float64_exact), and is also validated "
    "on large random triples",
    "Hann ramp kept symbolic in the splicing theorem; hypothesis w[j]+w[ov-1-j]=1 is the source's own runtime assertion",
    "harness/pC17.py generators, canonicaliser (buffer identity via np.shares_memory) and oracle",
    "extraction (Require Extraction, ExtrOcamlBasic only: bool/option/unit/list/prod/sumbool/sumor + andb/orb inlined; Z, positive kept inductive), harness/driver.ml, ocamlfind ocamlopt; a sample of the same cases is re-evaluated by the kernel (vm_compute)",
]

FLOAT_THEOREMS = ("C17_nwin_float64_exact", "C17_float64_ceil_div_exact", "C17_splicing_hann_sums_to_one")
KIND_NAMES = ["firstlast", "firstlast_valid", "firstlast_splicing", "slice", "slice_array"]

# constructor-argument representations: name -> (constructor, class, unsigned bits or 0, max exactly held)
REPRS = {
    "int": (int, "exact", 0, None),
    "int16": (np.int16, "exact", 0, 2 ** 15 - 1),
    "int32": (np.int32, "exact", 0, 2 ** 31 - 1),
    "int64": (np.int64, "exact", 0, 2 ** 63 - 1),
    "intp": (np.intp, "exact", 0, 2 ** 63 - 1),
    "uint16": (np.uint16, "unsigned", 16, 2 ** 16 - 1),
    "uint32": (np.uint32, "unsigned", 32, 2 ** 32 - 1),
    "uint64": (np.uint64, "unsigned", 64, 2 ** 64 - 1),
    "uintp": (np.uintp, "unsigned", 64, 2 ** 64 - 1),
    "float": (float, "exact", 0, 2 ** 52),
    "float64": (np.float64, "exact", 0, 2 ** 52),
    "float32": (np.float32, "exact", 0, 2 ** 24),
}


class Unbounded(Exception):
    """a generator of the implementation yielded more items than any correct one can"""


class CaseTimeout(BaseException):
    """one case ran longer than CASE_TIMEOUT_S (raised from SIGALRM inside a worker)"""


CASE_TIMEOUT_S = 15
MAX_TIMEOUTS_PER_CHUNK = 2     # then the rest of the chunk is skipped (and reported)


def guarded(fn, *a, **kw):
    """Call into the implementation: (True, value) or (False, exception).  The implementation may raise anything
    (SystemExit and KeyboardInterrupt included) or not come back: a per-case alarm turns a hang into CaseTimeout."""
    import signal

    def on_alarm(signum, frame):
        raise CaseTimeout("no result after %d s" % CASE_TIMEOUT_S)
    old = signal.signal(signal.SIGALRM, on_alarm)
    signal.setitimer(signal.ITIMER_REAL, CASE_TIMEOUT_S)
    try:
        return True, fn(*a, **kw)
    except BaseException as e:
        return False, e
    finally:
        signal.setitimer(signal.ITIMER_REAL, 0)
        signal.signal(signal.SIGALRM, old)


def why(e):
    if isinstance(e, CaseTimeout):
        return "WindowGenerator did not come back within %d s" % CASE_TIMEOUT_S
    if isinstance(e, Unbounded):
        return "WindowGenerator: %s" % e
    return "WindowGenerator raised %r" % (e,)


def bounded(gen, cap, what):
    """iterate at most cap items of an implementation generator; a correct one stops by itself well before"""
    n = 0
    for x in gen:
        n += 1
        if n > cap:
            raise Unbounded("%s did not stop after %d items" % (what, cap))
        yield x


def ints(tup, n):
    """a yielded tuple of exactly n integers -> python ints (anything else is an error of the implementation)"""
    tup = tuple(tup)
    if len(tup) != n:
        raise ValueError("generator yielded %d values instead of %d: %r" % (len(tup), n, tup))
    return tuple(int(x) for x in tup)


def canon_ts(raw):
    """wg.tscale(1.0) -> (twice the values as ints or None when it is not a finite 1-D numeric sequence,
    the doubled values are whole numbers, it is a 1-D float ndarray)"""
    try:
        a = np.asarray(raw, dtype=float)
    except (TypeError, ValueError):
        return None, False, False
    if a.ndim != 1 or not np.all(np.isfinite(a)):
        return None, False, False
    a2 = a * 2
    return [int(round(float(x))) for x in a2], bool(np.all(a2 == np.round(a2))), \
        isinstance(raw, np.ndarray) and raw.dtype == np.float64


def win_cap(ns, nswin, ov):
    """more windows than this cannot be right: announced-by-formula count + margin"""
    return max(0, -((-(ns - nswin)) // max(1, nswin - ov))) + 8


def make_wg(ns, nswin, ov, rep="int", which="all"):
    from ibldsp.utils import WindowGenerator
    conv = REPRS[rep][0]
    with warnings.catch_warnings():
        warnings.simplefilter("ignore")     # NumPy warns on scalar wrap-around; judged on the values
        if which == "all":
            return WindowGenerator(conv(ns), conv(nswin), conv(ov))
        return WindowGenerator(conv(ns), nswin, ov)


def ramp(ov):
    return scipy.signal.windows.hann((ov + 1) * 2 + 1, sym=True)[1:ov + 1]


def decode_amp(amp, w):
    """amplitude vector -> symbolic codes of coq/C17/Model.v amp_code: -1 for 1.0, i for w[i], -2 otherwise"""
    amp = np.asarray(amp)
    codes = np.full(amp.shape, -2, dtype=np.int64)
    one = amp == 1.0
    codes[one] = -1
    if w.size:
        idx = np.minimum(np.searchsorted(w, amp), w.size - 1)
        hit = (w[idx] == amp) & ~one
        codes[hit] = idx[hit]
    return [int(c) for c in codes]


def valid_partition_ok(ns, v, fl):
    pos = 0
    okv = len(v) == len(fl)
    for (f, l, fv, lv), (a, b) in zip(v, fl):
        okv = okv and (f, l) == (a, b) and fv == pos and f <= fv < lv <= l
        pos = lv
    return bool(okv and pos == ns)


def splice_sum_ok(ns, tuples):
    tot = np.zeros(ns)
    for first, last, amp in tuples:
        if np.shape(amp) != (last - first,):
            return False
        tot[first:last] += amp
    return bool(np.allclose(tot, 1.0, rtol=0, atol=1e-12))


def impl_observe(ns, nswin, ov, with_splice, rep="int", which="all", interleave=True):
    """Run the real WindowGenerator; everything converted to python ints."""
    wg = make_wg(ns, nswin, ov, rep, which)
    cap = win_cap(ns, nswin, ov)
    obs = {"ns": ns, "nswin": nswin, "ov": ov, "nwin": int(wg.nwin), "rep": rep, "which": which}
    attrs0 = (wg.ns, wg.nswin, wg.overlap, wg.nwin)
    obs["attrs_ok"] = (type(wg.ns), type(wg.nswin), type(wg.overlap)) == (int, int, int) and \
        (wg.ns, wg.nswin, wg.overlap) == (ns, nswin, ov) and wg.iw is None
    fl = [ints(x, 2) for x in bounded(wg.firstlast, cap, "firstlast")]
    obs["fl"] = fl
    obs["iw_after_firstlast"] = wg.iw
    try:
        obs["valid"] = [ints(t, 4) for t in bounded(wg.firstlast_valid, cap, "firstlast_valid")]
    except AssertionError:
        obs["valid"] = None
    obs["ts"], obs["ts_exact"], obs["ts_ndarray"] = canon_ts(wg.tscale(1.0))
    obs["slices"] = [(int(s.start), int(s.stop)) if s.step is None else (-1, -1) for s in bounded(wg.slice, cap, "slice")]
    inter = []          # (what, property predicate violated?)
    if with_splice:
        w = ramp(ov)
        sp = []
        tot = np.zeros(ns)
        decodable = True
        kept = []       # the yielded tuples themselves (materialised), next to a copy taken at yield time
        for first, last, amp in bounded(wg.firstlast_splicing, cap, "firstlast_splicing"):
            first, last = int(first), int(last)
            well_formed = isinstance(amp, np.ndarray) and amp.shape == (last - first,) and amp.dtype == np.float64
            codes = decode_amp(amp, w) if well_formed else [-2] * max(1, last - first)
            decodable = decodable and -2 not in codes
            if not well_formed:
                amp = np.full(max(0, last - first), np.nan)      # counts as "does not sum to one" below
            tot[first:last] += amp
            sp.append((int(first), int(last), codes))
            kept.append((first, last, amp, np.array(amp, copy=True)))
        obs["splice"] = sp
        obs["splice_decodable"] = decodable
        obs["splice_sum_ok"] = bool(np.allclose(tot, 1.0, rtol=0, atol=1e-12))
        # two-pass use: the tuples are used after the generator has moved on
        obs["splice_stable"] = all(np.array_equal(a, c) for _, _, a, c in kept)
        obs["splice_distinct_buffers"] = not any(np.shares_memory(kept[i][2], kept[j][2])
                                                 for i in range(len(kept)) for j in range(i + 1, min(len(kept), i + 3)))
        obs["splice_sum_ok_materialised"] = splice_sum_ok(ns, [(f, l, a) for f, l, a, _ in kept])
        lst = list(bounded(make_wg(ns, nswin, ov, rep, which).firstlast_splicing, cap, "firstlast_splicing"))
        obs["splice_list_equal"] = len(lst) == len(kept) and all(
            (int(f), int(l)) == (int(f2), int(l2)) and np.array_equal(a, c)
            for (f, l, a), (f2, l2, _, c) in zip(lst, kept))
        obs["splice_sum_ok_list"] = splice_sum_ok(ns, lst)
    if interleave:
        obs["interleave_bad"] = inter
        nw = len(fl)
        exp_ts = [a + b - 1 for a, b in fl]
        # two views of the same kind
        wg2 = make_wg(ns, nswin, ov, rep, which)
        got = [(tuple(map(int, a)), tuple(map(int, b))) for a, b in zip(bounded(wg2.firstlast, cap, 'firstlast'), wg2.firstlast)]
        if [g[0] for g in got] != fl or [g[1] for g in got] != fl:
            inter.append(("zip(wg.firstlast, wg.firstlast) differs from wg.firstlast", True))
        if obs["valid"] is not None:
            wg2 = make_wg(ns, nswin, ov, rep, which)
            got = [(tuple(int(x) for x in v), (int(s.start), int(s.stop))) for v, s in zip(bounded(wg2.firstlast_valid, cap, 'firstlast_valid'), wg2.slice)]
            gv = [g[0] for g in got]
            if gv != obs["valid"] or [g[1] for g in got] != fl:
                inter.append(("firstlast_valid / slice consumed as zip(wg.firstlast_valid, wg.slice) differ from the "
                              "same generators consumed alone", not valid_partition_ok(ns, gv, fl)))
            wg2 = make_wg(ns, nswin, ov, rep, which)
            pts = {0, 1, nw // 2, nw - 2, nw - 1}
            gv, ts_ok, iw_ok = [], True, True
            for i, v in enumerate(bounded(wg2.firstlast_valid, cap, 'firstlast_valid')):
                if i in pts:
                    ts_ok = ts_ok and canon_ts(wg2.tscale(1.0))[0] == exp_ts
                    iw_ok = iw_ok and wg2.iw == nw - 1
                gv.append(tuple(int(x) for x in v))
            if gv != obs["valid"] or not ts_ok:
                inter.append(("firstlast_valid with wg.tscale(fs) called inside the loop differs from firstlast_valid "
                              "consumed alone (or the time scale computed there is not the window centres)",
                              not valid_partition_ok(ns, gv, fl) or not ts_ok))
            if not iw_ok:
                inter.append(("wg.iw is not nwin-1 right after wg.tscale(fs) called inside a loop", False))
        if with_splice:
            wg2 = make_wg(ns, nswin, ov, rep, which)
            other = wg2.firstlast_valid if obs["valid"] is not None else wg2.slice
            got = [(a, b) for a, b in zip(bounded(other, cap, 'generator'), wg2.firstlast_splicing)]
            ga = [(int(f), int(l), a) for _, (f, l, a) in got]
            same = len(ga) == len(kept) and all((f, l) == (int(f2), int(l2)) and np.array_equal(a, c)
                                                for (f, l, a), (f2, l2, _, c) in zip(ga, kept))
            if obs["valid"] is not None:
                gv = [tuple(int(x) for x in v) for v, _ in got]
                if gv != obs["valid"]:
                    inter.append(("firstlast_valid consumed as zip(wg.firstlast_valid, wg.firstlast_splicing) differs "
                                  "from firstlast_valid consumed alone", not valid_partition_ok(ns, gv, fl)))
            if not same:
                inter.append(("firstlast_splicing consumed next to another view differs from firstlast_splicing alone",
                              2 * ov <= nswin and not splice_sum_ok(ns, ga)))
    obs["attrs_kept"] = (wg.ns, wg.nswin, wg.overlap, wg.nwin) == attrs0
    return obs


def oracle(obs):
    """The property's predicate, evaluated on the implementation's outputs only."""
    ns, nswin, ov = obs["ns"], obs["nswin"], obs["ov"]
    fl = obs["fl"]
    bad = []
    if not fl or fl[0][0] != 0 or fl[-1][1] != ns:
        bad.append("windows do not start at 0 / end at ns")
    for (a0, a1), (b0, b1) in zip(fl, fl[1:]):
        if a1 - b0 != ov or a1 - a0 != nswin or b0 <= a0:
            bad.append("consecutive windows do not overlap by exactly the overlap")
            break
    if any(not (0 <= a < b <= ns) for a, b in fl):
        bad.append("empty or out-of-range window")
    if obs["nwin"] != len(fl):
        bad.append("announced window count %d != produced %d" % (obs["nwin"], len(fl)))
    if obs["slices"] != fl:
        bad.append("slice generator differs from firstlast")
    if obs["ts"] != [a + b - 1 for a, b in fl] or not obs["ts_exact"]:
        bad.append("tscale is not the window centre")
    if ov % 2 == 0:
        v = obs["valid"]
        if v is None:
            bad.append("valid generator refused an even overlap")
        elif not valid_partition_ok(ns, v, fl):
            bad.append("valid sub-windows do not partition the signal")
    if "splice" in obs and 2 * ov <= nswin:
        if [(a, b) for a, b, _ in obs["splice"]] != fl:
            bad.append("splicing windows differ from firstlast")
        if not obs["splice_sum_ok"]:
            bad.append("splicing amplitudes do not sum to one")
        elif not (obs["splice_sum_ok_materialised"] and obs["splice_sum_ok_list"]):
            bad.append("splicing amplitudes collected with list(wg.firstlast_splicing) do not sum to one "
                       "(they do while streaming)")
    for what, violated in obs.get("interleave_bad", []):
        if violated:
            bad.append("interleaved use: " + what)
    return bad


def soft_checks(obs):
    """Differences from the model's view of the object that are not (shown to be) property violations."""
    out = []
    if obs["ts"] is not None and not obs.get("ts_ndarray", True):
        out.append("tscale did not return a 1-D float64 ndarray")
    if not obs.get("attrs_kept", True):
        out.append("using the generators changed wg.ns / wg.nswin / wg.overlap / wg.nwin")
    if not obs["attrs_ok"]:
        out.append("wg.ns / wg.nswin / wg.overlap are not the int values of the arguments, or iw is not None after __init__")
    if obs["iw_after_firstlast"] != len(obs["fl"]) - 1:
        out.append("wg.iw after a complete firstlast loop is %r, not nwin-1" % (obs["iw_after_firstlast"],))
    if "splice" in obs:
        if not obs["splice_decodable"]:
            out.append("splicing amplitude is neither 1 nor a ramp value (or not a float64 vector of the window's length)")
        if not (obs["splice_stable"] and obs["splice_list_equal"]):
            out.append("an amplitude vector changed after the next window was requested (list(wg.firstlast_splicing) "
                       "differs from the values seen while streaming)")
        if not obs["splice_distinct_buffers"]:
            out.append("amplitude vectors of different windows share memory")
    for what, violated in obs.get("interleave_bad", []):
        if not violated:
            out.append("interleaved use: " + what)
    return out


def enc_obs(obs):
    """Same flat encoding as coq/C17/Run.v `run`, mode 0/1."""
    out = [obs["nwin"]]
    out += [1, len(obs["fl"])] + [x for t in obs["fl"] for x in t]
    if obs["valid"] is None:
        out += [0]
    else:
        out += [1, len(obs["valid"])] + [x for t in obs["valid"] for x in t]
    out += [0] if obs["ts"] is None else [1, len(obs["ts"])] + obs["ts"]
    if "splice" in obs:
        out += [1, len(obs["splice"])]
        for f, l, codes in obs["splice"]:
            out += [f, l, len(codes)] + codes
    return out


def enc_inp(obs):
    return [obs["ns"], obs["nswin"], obs["ov"], 1 if "splice" in obs else 0]


# ---------------------------------------------------------------------------------------------
# schedules: several generator views of one object, arbitrary interleaving
# ---------------------------------------------------------------------------------------------
def run_schedule_impl(ns, nswin, ov, kinds, events):
    """Returns (flat trace as Run.v mode 2, per-view outputs, problems[(what, is_property_violation)])."""
    # a firstlast that does not stop would make tscale() (which cannot be bounded from outside) run forever
    fl_ref = [ints(x, 2) for x in bounded(make_wg(ns, nswin, ov).firstlast, win_cap(ns, nswin, ov), "firstlast")]
    wg = make_wg(ns, nswin, ov)
    sig = np.arange(ns)
    gens = [wg.slice_array(sig) if k == 4 else getattr(wg, KIND_NAMES[k]) for k in kinds]
    w = ramp(ov)
    trace = []
    per_view = [[] for _ in kinds]
    amps = []           # every amplitude vector ever yielded (kept alive), with a copy taken at yield time
    nclasses = 0
    iw_ahead = False    # a view's own position and wg.iw differ right after that view yielded
    for e in events:
        if e < 0:
            ts, exact, _ = canon_ts(wg.tscale(1.0))
            out = [7, len(ts)] + ts if ts is not None and exact else [7, -1]
        else:
            k = kinds[e]
            try:
                r = next(gens[e])
            except StopIteration:
                out = [0]
            except AssertionError:
                out = [1]
            else:
                if k == 0:
                    out = [2] + list(ints(r, 2))
                elif k == 1:
                    out = [3] + list(ints(r, 4))
                elif k == 2:
                    f, l, amp = r
                    f, l = int(f), int(l)
                    if not (isinstance(amp, np.ndarray) and amp.shape == (l - f,) and amp.dtype == np.float64):
                        out = [4, f, l, 1, -2]        # not a float64 vector of the window's length
                        amp = np.full(max(0, l - f), np.nan)
                    else:
                        codes = decode_amp(amp, w)
                        out = [4, f, l, len(codes)] + codes
                    if not any(np.shares_memory(amp, a) for _, _, a, _, _ in amps) and \
                            not np.shares_memory(amp, w) and not np.shares_memory(amp, sig):
                        nclasses += 1
                    amps.append((f, l, amp, np.array(amp, copy=True), e))
                elif k == 3:
                    out = [5, int(r.start), int(r.stop)] if r.step is None else [5, -1, -1]
                else:
                    a = np.asarray(r)
                    if a.ndim == 1 and a.size and np.array_equal(a, np.arange(a[0], a[0] + a.size)):
                        out = [6, int(a[0]), int(a[0]) + a.size]
                    else:
                        out = [6, -1, -1]
                per_view[e].append(out)
                iw_ahead = iw_ahead or wg.iw != len(per_view[e]) - 1
        iw = wg.iw
        trace += out + [-1 if iw is None else int(iw), nclasses]
    problems = [("iw_ahead", None)] if iw_ahead else []
    if not np.array_equal(sig, np.arange(ns)):
        problems.append(("slice_array modified the array it was given", False))
    # materialised amplitudes: unchanged since they were yielded, and (view run to its end) they sum to one
    if not all(np.array_equal(a, c) for _, _, a, c, _ in amps):
        problems.append(("an amplitude vector changed after a later window was requested", False))
    for vi, k in enumerate(kinds):
        outs = per_view[vi]
        done = events.count(vi) > len(outs) and not (k == 1 and ov % 2)
        if not done:
            continue
        if k == 1 and not valid_partition_ok(ns, [tuple(o[1:]) for o in outs], fl_ref):
            problems.append(("valid sub-windows of a view consumed next to other views do not partition the signal", True))
        if k == 2 and 2 * ov <= nswin and not splice_sum_ok(ns, [(f, l, a) for f, l, a, _, v in amps if v == vi]):
            problems.append(("splicing amplitudes of a view, collected and summed after the loop, do not sum to one", True))
        if k in (0, 3, 4) and [tuple(o[1:3]) for o in outs] != fl_ref:
            problems.append(("windows of a view consumed next to other views differ from firstlast", True))
    return trace, per_view, problems


# ---------------------------------------------------------------------------------------------
# the data-carrying views: slice_array(sig, axis) on arrays of 1-3 dimensions, tscale(fs) at other rates
# ---------------------------------------------------------------------------------------------
DTYPES = ["int64", "int16", "uint8", "float32", "float64", "list"]
FS_EXACT = [(1, 2), (1, 1), (2, 1), (4096, 1), (1, 1024), (32768, 1)]          # powers of two: the float result is exact
FS_OTHER = [30000, 30000.0, 2500.0, 1e-3, "float32:30000", 44100, 3.0]


def views_impl(ns, nswin, ov, axis, ncols, dtype, fsq, fso, seed):
    """-> (mode-4 input, output), (mode-5 input, output), problems[(what, is_property_violation)]"""
    import random
    from fractions import Fraction
    r = random.Random(seed)
    problems = []
    cap = win_cap(ns, nswin, ov)
    fl = [ints(x, 2) for x in bounded(make_wg(ns, nswin, ov).firstlast, cap, "firstlast")]
    rows_axis = axis in (0, -2)
    shape = (ns, ncols) if rows_axis else (ncols, ns)
    vals = [[r.randrange(0, 100) for _ in range(shape[1])] for _ in range(shape[0])]
    sig = vals if dtype == "list" else np.array(vals, dtype=dtype)
    ref = np.array(vals)
    wg = make_wg(ns, nswin, ov)
    out4 = [1, 0]
    got = []
    for a in bounded(wg.slice_array(sig, axis=axis), cap, "slice_array"):
        if not isinstance(a, np.ndarray) or a.ndim != 2:
            out4 += [-1, -1]
            continue
        if dtype != "list" and np.shares_memory(a, sig):
            problems.append(("slice_array yields a view of its input (np.take copies)", False))
        got.append(a)
        out4 += [a.shape[0], a.shape[1]] + [int(x) for x in a.ravel()]
        if dtype != "list" and a.dtype != sig.dtype:
            problems.append(("slice_array changes the dtype of the data", False))
    out4[1] = len(got)
    if not np.array_equal(np.asarray(sig), ref):
        problems.append(("slice_array modified the array it was given", False))
    if wg.iw != len(fl) - 1:
        problems.append(("wg.iw is not nwin-1 after a complete slice_array loop", False))
    if ov == 0 and len(got) == len(fl) and got:       # zero overlap: the pieces put end to end are the signal
        if not np.array_equal(np.concatenate(got, axis=0 if rows_axis else 1), ref):
            problems.append(("zero overlap: the slice_array pieces concatenated along the axis are not the signal", True))
    inp4 = [ns, nswin, ov, 4, axis, shape[0], shape[1]] + [x for row in vals for x in row]
    # other ranks / every axis, against plain indexing (not through the model)
    for nd in (1, 3):
        shp = [2, 3, 2][:nd]
        for ax in range(-nd, nd):
            s2 = list(shp)
            s2[ax] = ns
            big = np.arange(int(np.prod(s2))).reshape(s2)
            pieces = list(bounded(make_wg(ns, nswin, ov).slice_array(big, axis=ax), cap, "slice_array"))
            exp = [np.moveaxis(np.moveaxis(big, ax, 0)[f:l], 0, ax) for f, l in fl]
            if len(pieces) != len(exp) or not all(isinstance(p, np.ndarray) and np.array_equal(p, e) for p, e in zip(pieces, exp)):
                problems.append(("slice_array(sig, axis=%d) on a %d-D array is not sig[first:last] along that axis" % (ax, nd), True))
    sl = [s for s in bounded(make_wg(ns, nswin, ov).slice, cap, "slice")]
    big = np.arange(ns)
    if [tuple(int(x) for x in (big[s][0], big[s][-1] + 1)) if big[s].size else (-1, -1) for s in sl] != fl:
        problems.append(("indexing with the slices of wg.slice does not give the windows of firstlast", True))
    # tscale at a power-of-two rate: exact rational comparison inside the model
    fn, fd = fsq
    ts = make_wg(ns, nswin, ov).tscale(fn / fd)
    pq = []
    if isinstance(ts, np.ndarray) and ts.ndim == 1 and np.all(np.isfinite(ts)):
        for x in ts:
            fr = Fraction(float(x))
            pq += [fr.numerator, fr.denominator]
    inp5 = [ns, nswin, ov, 5, fn, fd] + pq
    out5 = [len(fl), len(fl)] + [1] * len(fl)
    # ... and at any other rate: centre / fs within two roundings
    fs = np.float32(30000) if fso == "float32:30000" else fso
    tsr = np.asarray(make_wg(ns, nswin, ov).tscale(fs), dtype=float)
    centres = np.array([(f + l - 1) / 2 for f, l in fl])
    # a float32 rate makes NumPy (NEP 50) compute the time in float32: 2^-24 per operation (noted, not a violation)
    rtol = 3e-7 if isinstance(fs, np.float32) else 1e-14
    if tsr.shape != centres.shape or not np.allclose(tsr * float(fs), centres, rtol=rtol, atol=0):
        problems.append(("tscale(fs=%r) is not the window centres divided by fs (one per window)" % (fso,), True))
    elif len(fl) > 1 and not np.all(np.diff(tsr) > 0):
        problems.append(("tscale(fs=%r) is not strictly increasing" % (fso,), True))
    return (inp4, out4), (inp5, out5), problems


def gen_schedules(ctx, n):
    rng = ctx.rng
    out = []
    for _ in range(n):
        w = rng.choice([1, 2, 3, 4, 5, 6, 7, 8, 10, 12, 16, rng.randrange(1, 41), rng.randrange(1, 41)])
        o = rng.choice([0, w // 2, (w // 2) & ~1, rng.randrange(0, w), rng.randrange(0, w) & ~1, w - 1])
        o = max(0, min(o, w - 1))
        s = w - o
        nw = rng.choice([1, 2, 2, 3, 3, 4, 5, 6, rng.randrange(1, 13)])
        ns = max(1, w + (nw - 1) * s + rng.choice([-s, -1, 0, 0, 1, rng.randrange(-s, s + 1)]))
        if rng.random() < 0.08:
            ns = max(1, rng.choice([o - 1, o, o + 1, 1, w - 1]))
        nwin = max(0, -((-(ns - w)) // s)) + 1
        pat = rng.choice(["zip", "zip", "zip_tscale", "random", "random", "sequential", "nested", "lone_tail"])
        nk = rng.choice([1, 2, 2, 2, 3, 4]) if pat != "nested" else rng.randrange(2, 7)
        kinds = [rng.choice([0, 1, 1, 2, 2, 3, 4]) for _ in range(nk)]
        if nk >= 2 and rng.random() < 0.4:
            kinds[0], kinds[1] = 1, rng.choice([2, 3, 2, 0])
        ev = []
        if pat in ("zip", "zip_tscale"):
            rounds = nwin + rng.choice([0, 1, 2]) if rng.random() < 0.8 else rng.randrange(1, nwin + 2)
            for r in range(rounds):
                for i in range(nk):
                    ev.append(i)
                    if pat == "zip_tscale" and rng.random() < 0.25:
                        ev.append(-1)
        elif pat == "random":
            for _ in range(rng.randrange(1, nk * (nwin + 2) + 1)):
                ev.append(-1 if rng.random() < 0.08 else rng.randrange(nk))
        elif pat == "sequential":
            for i in range(nk):
                ev += [i] * rng.choice([nwin + 1, nwin + 1, nwin, rng.randrange(1, nwin + 3)])
                if rng.random() < 0.3:
                    ev.append(-1)
        elif pat == "nested":      # for each window of view 0, a whole fresh view is run
            inner = 1
            for r in range(nwin + 1):
                ev.append(0)
                if inner < nk:
                    ev += [inner] * (nwin + 1)
                    inner += 1
                elif rng.random() < 0.5:
                    ev.append(-1)
        else:                      # anything, then one view alone to its end (iw must track it)
            for _ in range(rng.randrange(0, nk * nwin + 1)):
                ev.append(-1 if rng.random() < 0.1 else rng.randrange(max(1, nk - 1)))
            ev += [nk - 1] * (nwin + 2)
        out.append((ns, w, o, kinds, ev[:160], pat))
    return out


# ---------------------------------------------------------------------------------------------
def gen_triples(ctx):
    rng = ctx.rng
    triples = []
    boundary = []
    # the bounded box of the property: ns <= 400, nswin <= 64, every admissible overlap
    box = [(ns, w, o) for w in range(1, 65) for o in range(0, w) for ns in range(1, 401)]
    if ctx.thorough():
        triples += box
    else:
        off = rng.randrange(61)
        triples += box[off::61]
    # boundary rows always: ns around overlap / window / multiples of the stride
    for w in (1, 2, 3, 4, 7, 10, 12, 16, 33, 64):
        for o in sorted({0, 1, 2, w // 2 - 1, w // 2, w // 2 + 1, w - 2, w - 1}):
            if 0 <= o < w:
                s = w - o
                for ns in {1, o - 1, o, o + 1, w - 1, w, w + 1, w + s - 1, w + s, w + s + 1,
                           2 * o - 1, 2 * o, 2 * o + 1, w + 5 * s, w + 5 * s + 1, 400}:
                    if ns >= 1:
                        boundary.append((ns, w, o))
    # long strides, few windows, signal ending a few samples past / before a window boundary: the true ratio
    # (ns - nswin) / stride is within 1e-7 .. 1e-15 of an integer, where any tolerance, rounding "guard" or
    # reduced-precision arithmetic in the window count shows (a handful of windows each: cheap)
    wins = [2 ** k for k in range(16, 25)] + [2 ** 21 + 1, 2 ** 23 - 1, 1800000, 30000 * 300,
                                              2 ** 30, 2 ** 40, 2 ** 50]
    wins += [rng.randrange(2 ** 16, 2 ** 24 + 1) for _ in range(40 if ctx.thorough() else 4)]
    long_stride = []
    for w in wins:
        for o in dict.fromkeys([0, 1, 1024, w // 2, w - 1]):
            s = w - o
            for k in range(0, 8):
                for r in dict.fromkeys([-3, -2, -1, 0, 1, 2, 3, s - 1, s - 2]):
                    ns = w + k * s + r
                    if ns >= 1 and ns < 2 ** 52:
                        long_stride.append((ns, w, o))
                        if r == 1 and k in (0, 5) and o == 1024 and w <= 2 ** 24:
                            boundary.append((ns, w, o))      # also through every argument representation
    triples += boundary + long_stride
    nrand = 20000 if ctx.thorough() else 2000
    for _ in range(nrand):
        kind = rng.random()
        if kind < 0.4:       # realistic: long recordings, big windows, at most a few thousand windows
            w = rng.choice([1024, 4096, 65536, 30000, 2 ** rng.randrange(4, 18), rng.randrange(2, 10 ** 5)])
            o = rng.choice([0, 1, w // 2, w // 2 - 1, w - 1, rng.randrange(0, w), rng.randrange(0, w // 2 + 1)])
            s = w - o
            nw = rng.choice([1, 1, 2, 3, rng.randrange(1, 40), rng.randrange(1, 40), rng.randrange(1, 40),
                             rng.randrange(1, 1500)])
            ns = max(1, w + (nw - 1) * s + rng.choice([-s, -1, 0, 1, rng.randrange(-s, s + 1)]))
        elif kind < 0.7:     # around the short-signal boundaries
            w = rng.randrange(1, 3000)
            o = rng.randrange(0, w)
            ns = max(1, rng.choice([o, w, 2 * o, 1]) + rng.randrange(-2, 3))
        else:
            w = rng.randrange(1, 500)
            o = rng.randrange(0, w)
            ns = rng.randrange(1, 6000)
            if (ns // max(1, w - o)) > 200:
                ns = rng.randrange(1, 200 * (w - o) + 1)
        triples.append((ns, w, max(0, min(o, w - 1))))
    return triples, boundary


def rep_applicable(rep, which, ns, w, o):
    mx = REPRS[rep][3]
    if mx is None:
        return True
    return max(ns, w, o) <= mx      # also for which == "ns": int operands beyond the type raise OverflowError (notes)


# ---------------------------------------------------------------------------------------------
# chunked evaluation: each worker runs the implementation on its chunk, pushes the same inputs through the
# extracted Coq model, compares, and returns only verdicts, counters and a few small cases (kept for the
# kernel re-evaluation); nothing data-sized is held for the whole run
# ---------------------------------------------------------------------------------------------
_EX = None      # common.Extracted, built before the pool forks


def tri(ns, w, o):
    return {"ns": ns, "nswin": w, "overlap": o}


def _work(job):
    kind, idx, items = job
    import random
    res = {"fails": [], "disagrees": [], "stats": {}, "n": 0, "nontrivial": 0, "keep": [], "samples": [], "nmodel": 0}
    st = res["stats"]

    def bump(k, v=1):
        st[k] = st.get(k, 0) + int(v)
    inputs, outputs, descr = [], [], []
    ntimeouts = [0]

    def give_up(exc, d):
        """repeated hangs: do not spend the budget on the rest of the chunk"""
        if isinstance(exc, CaseTimeout):
            ntimeouts[0] += 1
            if ntimeouts[0] == MAX_TIMEOUTS_PER_CHUNK:
                res["disagrees"].append(("%d cases of this chunk did not come back; the rest of the chunk was skipped"
                                         % MAX_TIMEOUTS_PER_CHUNK, d))
        return ntimeouts[0] >= MAX_TIMEOUTS_PER_CHUNK
    if kind == "triple":
        for (ns, w, o) in items:
            if ntimeouts[0] >= MAX_TIMEOUTS_PER_CHUNK:
                break
            n_est = max(0, -((-(ns - w)) // (w - o))) + 1
            with_splice = ns <= 3000 and n_est * min(ns, w) <= 40000
            ok, obs = guarded(impl_observe, ns, w, o, with_splice)
            if not ok:                  # the property says these calls succeed on the whole domain
                res["fails"].append((why(obs), tri(ns, w, o), {"kind": "exception"}))
                give_up(obs, tri(ns, w, o))
                continue
            res["n"] += 1
            inputs.append(enc_inp(obs))
            outputs.append(enc_obs(obs))
            descr.append(tri(ns, w, o))
            for b in oracle(obs):
                res["fails"].append((b, tri(ns, w, o), {"kind": b.split()[0], "repr_class": "exact", "ns_lt_nswin": ns < w}))
            for b in soft_checks(obs):
                res["disagrees"].append((b, tri(ns, w, o)))
            nfl = len(obs["fl"])
            bump("single_window", nfl == 1)
            bump("short_last", nfl > 1 and (obs["fl"][-1][1] - obs["fl"][-1][0]) < w)
            bump("zero_overlap", o == 0)
            bump("ns_le_overlap", ns <= o)
            bump("half_or_less_overlap", 2 * o <= w)
            bump("spliced", with_splice)
            bump("odd_overlap", o % 2 == 1)
            bump("interleaved_patterns_run", 1 + (2 if o % 2 == 0 else 0) + (1 if with_splice else 0))
            res["nontrivial"] += nfl > 1
            if len(res["samples"]) < 2 and nfl > 1:
                res["samples"].append({"ns": ns, "nswin": w, "overlap": o, "firstlast": obs["fl"][:4], "nwin": obs["nwin"]})
    elif kind == "sched":
        for (ns, w, o, kinds, ev, pat) in items:
            if ntimeouts[0] >= MAX_TIMEOUTS_PER_CHUNK:
                break
            d = dict(tri(ns, w, o), mode="schedule", kinds=kinds, events=ev)
            ok, r3 = guarded(run_schedule_impl, ns, w, o, kinds, ev)
            if not ok:
                res["fails"].append((why(r3) + " during an interleaved schedule", d, {"kind": "exception"}))
                give_up(r3, d)
                continue
            trace, per_view, problems = r3
            if problems and problems[0][0] == "iw_ahead":
                problems = problems[1:]
                bump("iw_ahead_of_reader")
            for what, violated in problems:
                if violated:
                    res["fails"].append((what, d, {"kind": "interleaved"}))
                else:
                    res["disagrees"].append((what, d))
            res["n"] += 1
            inputs.append([ns, w, o, 2, len(kinds)] + kinds + ev)
            outputs.append(trace)
            descr.append(d)
            used = {e for e in ev if e >= 0}
            bump("schedules")
            bump("events", len(ev))
            bump("with_tscale", -1 in ev)
            bump("two_or_more_views", len(used) >= 2)
            bump("valid_next_to_other", any(kinds[e] == 1 for e in used) and len(used) >= 2 and o % 2 == 0 and o > 0)
            bump("splicing_views", any(kinds[e] == 2 for e in used))
            bump("assertion_path", any(kinds[e] == 1 for e in used) and o % 2 == 1)
            bump("pattern_" + pat)
            res["nontrivial"] += len(used) >= 2 and max(len(v) for v in per_view) > 1
            if len(res["samples"]) < 1 and len(used) >= 2:
                res["samples"].append(d)
    elif kind == "views":
        for (ns, w, o, axis, nc, dt, fsq, fso, seed) in items:
            if ntimeouts[0] >= MAX_TIMEOUTS_PER_CHUNK:
                break
            d = dict(tri(ns, w, o), mode="views", axis=axis, ncols=nc, dtype=dt, fs_exact=list(fsq), fs_other=fso, seed=seed)
            ok, r3 = guarded(views_impl, ns, w, o, axis, nc, dt, fsq, fso, seed)
            if not ok:
                res["fails"].append((why(r3) + " (slice_array / slice / tscale)", d, {"kind": "exception"}))
                give_up(r3, d)
                continue
            (i4, o4), (i5, o5), problems = r3
            for what, violated in dict.fromkeys(problems):
                if violated:
                    res["fails"].append((what, d, {"kind": "views"}))
                else:
                    res["disagrees"].append((what, d))
            res["n"] += 1
            inputs += [i4, i5]
            outputs += [o4, o5]
            descr += [d, d]
            bump("cases")
            bump("axis_%d" % axis)
            bump("dtype_" + dt)
            bump("zero_overlap", o == 0)
            res["nontrivial"] += (max(0, -((-(ns - w)) // (w - o))) + 1) > 1
    else:   # representations of the constructor arguments
        for (ns, w, o) in items:
            if ntimeouts[0] >= MAX_TIMEOUTS_PER_CHUNK:
                break
            ok, b = guarded(impl_observe, ns, w, o, False, interleave=False)
            if not ok:
                res["fails"].append((why(b), tri(ns, w, o), {"kind": "exception"}))
                give_up(b, tri(ns, w, o))
                continue
            bump("triples_with_ns_lt_nswin", ns < w)
            for rep, (conv, rclass, ubits, _) in REPRS.items():
                if rep == "int":
                    continue
                for which in ("all", "ns"):
                    if not rep_applicable(rep, which, ns, w, o) or ntimeouts[0] >= MAX_TIMEOUTS_PER_CHUNK:
                        continue
                    d = dict(tri(ns, w, o), mode="repr", repr=rep, which=which)
                    tags_base = {"repr_class": rclass, "ns_lt_nswin": ns < w}
                    ok, obs = guarded(impl_observe, ns, w, o, False, rep, which, interleave=False)
                    if not ok:
                        res["fails"].append((why(obs) + " for arguments given as %s" % rep, d,
                                             dict(tags_base, kind="exception")))
                        give_up(obs, d)
                        continue
                    res["n"] += 1
                    bump(rep)
                    for bmsg in oracle(obs):
                        res["fails"].append((bmsg + " [arguments given as %s (%s)]" % (rep, which), d,
                                             dict(tags_base, kind=bmsg.split()[0])))
                    for bmsg in soft_checks(obs):
                        res["disagrees"].append((bmsg, d))
                    for k in ("fl", "valid", "ts", "slices"):
                        if obs[k] != b[k]:
                            res["disagrees"].append(("%s depends on the representation of the arguments" % k, d))
                    if obs["nwin"] != b["nwin"]:
                        res["disagrees"].append(("nwin depends on the representation of the arguments", d))
                    inputs.append(enc_inp(obs))       # the same model as for Python ints, nwin included
                    outputs.append(enc_obs(obs))
                    descr.append(d)
    # the same inputs through the extracted Coq model
    model = _EX.run_many(inputs, nproc=1) if inputs else []
    res["nmodel"] = len(inputs)
    for i in range(len(inputs)):
        if model[i] != outputs[i]:
            k = next((q for q, (a, b) in enumerate(zip(model[i], outputs[i])) if a != b),
                     min(len(model[i]), len(outputs[i])))
            res["disagrees"].append(("model and implementation differ at output position %d (model %s, implementation %s)"
                                     % (k, model[i][k:k + 4], outputs[i][k:k + 4]), descr[i]))
    # a few cases of this chunk for the kernel (vm_compute) re-evaluation: smallest and random
    order = sorted(range(len(inputs)), key=lambda i: len(inputs[i]) + len(outputs[i]))
    r = random.Random(idx * 7919 + 17)
    pick = order[:3] + (r.sample(range(len(inputs)), min(3, len(inputs))) if inputs else [])
    res["keep"] = [(len(inputs[i]) + len(outputs[i]), inputs[i], outputs[i], descr[i]) for i in dict.fromkeys(pick)
                   if len(inputs[i]) + len(outputs[i]) < 4000]
    return res


def _init_worker():
    import resource
    lim = 6 << 30          # a runaway allocation in the implementation becomes a MemoryError of that case
    try:
        resource.setrlimit(resource.RLIMIT_AS, (lim, lim))
    except (ValueError, OSError):
        pass


def _descr_of(job):
    kind, _, items = job
    it = items[0]
    d = tri(it[0], it[1], it[2])
    if kind == "sched":
        d.update(mode="schedule", kinds=it[3], events=it[4])
    d["note"] = "first input of the chunk of %d %s cases the worker was evaluating" % (len(items), kind)
    return d


def run_jobs(ctx, jobs, nproc):
    """Evaluate the chunks in worker processes.  A worker that dies (os._exit, segfault) or never answers is reported
    against the chunk it was working on; it does not take the check down."""
    import multiprocessing
    from concurrent.futures import ProcessPoolExecutor, TimeoutError as FTimeout
    from concurrent.futures.process import BrokenProcessPool
    results = [None] * len(jobs)
    ex = ProcessPoolExecutor(max_workers=nproc, mp_context=multiprocessing.get_context("fork"), initializer=_init_worker)
    futs = [ex.submit(_work, j) for j in jobs]
    lost = 0
    budget = 2400 if ctx.thorough() else 900
    try:
        for i, f in enumerate(futs):
            try:
                results[i] = f.result(timeout=max(30, budget - ctx.elapsed()))
            except (BrokenProcessPool, FTimeout) as e:
                lost += 1
                if lost <= 3:
                    ctx.disagree("a worker process %s while running the implementation" % (
                        "did not answer in time" if isinstance(e, FTimeout) else "died"), _descr_of(jobs[i]))
                if isinstance(e, FTimeout):
                    break
    finally:
        procs = list(getattr(ex, "_processes", {}).values())
        ex.shutdown(wait=False, cancel_futures=True)
        if lost:
            for p in procs:
                try:
                    p.kill()
                except Exception:
                    pass
    if lost:
        ctx.coverage["chunks_lost"] = lost
    return results


def run(ctx):
    global _EX
    # only the two float64 theorems may use the standard library's classical-real axioms (through Flocq)
    common.proof_obligations(ctx, whitelist=sorted(common.STDLIB_AXIOMS))
    for name, ax in ctx.theorems.items():
        if name not in FLOAT_THEOREMS and ax != "Closed under the global context":
            ctx.broken_proofs.append({"theorem": name, "why": "expected to be closed under the global context, uses %s" % (ax,)})
            ctx.coverage["discharged"] = max(0, ctx.coverage.get("discharged", 0) - 1)
    rng = ctx.rng
    triples, boundary = gen_triples(ctx)
    triples = list(dict.fromkeys(triples))
    scheds, sseen = [], set()
    for s in gen_schedules(ctx, 30000 if ctx.thorough() else 3000):
        key = (s[0], s[1], s[2], tuple(s[3]), tuple(s[4]))
        if key not in sseen and s[4]:
            sseen.add(key)
            scheds.append(s)
    # representations: boundary rows + a sample of the triples with at most 200 windows
    rest = [t for t in triples if max(0, -((-(t[0] - t[1])) // (t[1] - t[2]))) + 1 <= 200]
    pool_t = list(dict.fromkeys(boundary + rng.sample(rest, min(len(rest), 6000 if ctx.thorough() else 500))))

    small = [x for x in triples if x[0] <= 60 and x[1] <= 64]
    views = []
    nv = 12000 if ctx.thorough() else 1200
    small0 = [x for x in small if x[2] == 0]
    for (ns, w, o) in rng.sample(small, min(len(small), nv)) + rng.sample(small0, min(len(small0), nv // 4)):
        views.append((ns, w, o, rng.choice([0, 1, -1, -2]), rng.choice([1, 2, 3]), rng.choice(DTYPES),
                      rng.choice(FS_EXACT), rng.choice(FS_OTHER), rng.randrange(10 ** 6)))
    jobs = []
    for kind, items, size in (("triple", triples, 1500), ("sched", scheds, 400), ("repr", pool_t, 60),
                              ("views", views, 150)):
        for c in range(0, len(items), size):
            jobs.append((kind, len(jobs), items[c:c + size]))
    try:
        _EX = common.Extracted(PROP, "Run")
    except RuntimeError as e:
        ctx.broken_proofs.append({"theorem": "extraction of coq/C17/Run.v", "why": str(e)[-1500:]})
        return common.finish(ctx, TRUSTED, rule="model could not be built", samples=[], evaluations=0, distinct_nontrivial=0)
    nproc = max(2, min(common.NCPU - 2, 12, len(jobs)))
    results = run_jobs(ctx, jobs, nproc)

    fam = {"triple": {}, "sched": {}, "repr": {}, "views": {}}
    counts = {"triple": 0, "sched": 0, "repr": 0, "views": 0}
    nontrivial = nmodel = 0
    keep, samples = [], {"triple": [], "sched": [], "repr": [], "views": []}
    for (kind, _, _), r in zip(jobs, results):
        if r is None:
            continue
        for what, d, tags in r["fails"]:
            ctx.fail(what, d, tags)
        for what, d in r["disagrees"]:
            ctx.disagree(what, d)
        for k, v in r["stats"].items():
            fam[kind][k] = fam[kind].get(k, 0) + v
        counts[kind] += r["n"]
        nontrivial += r["nontrivial"]
        nmodel += r["nmodel"]
        keep += r["keep"]
        samples[kind] += r["samples"]
    # tie the extraction to the definitions the theorems are about: kernel re-evaluation of a sample
    keep.sort(key=lambda x: x[0])
    chosen = keep[:30] + rng.sample(keep[30:], min(30, max(0, len(keep) - 30)))
    terms = [common.flat_cases_term(i, c[1], c[2]) for i, c in enumerate(chosen)]
    for i in (common.coq_mismatches(PROP, HEADER, terms, shard=100) if terms else []):
        ctx.disagree("kernel-evaluated model and implementation differ", chosen[i][3])
    ctx.coverage["model_evaluations_extracted"] = nmodel
    ctx.coverage["model_evaluations_kernel"] = len(chosen)
    sd = fam["sched"]
    sd["patterns"] = {k[len("pattern_"):]: sd.pop(k) for k in [k for k in sd if k.startswith("pattern_")]}
    smp = samples["triple"][:: max(1, len(samples["triple"]) // 5)][:5] + samples["sched"][:2]
    return common.finish(
        ctx, TRUSTED,
        rule="(1) (ns, nswin, overlap) triples: the box ns<=400 x nswin<=64 x every overlap (all of it in "
             "thorough, a 1-in-61 stride plus boundary rows in quick), random large triples, and a long-stride family "
             "(nswin 2^16..2^24, 2^30, 2^40, 2^50 and random, overlap 0/1/1024/nswin/2/nswin-1, 1..8 windows, signal ending "
             "-3..+3 samples around a window boundary); each is run "
             "through the real WindowGenerator (nwin, firstlast, firstlast_valid, slice, tscale, "
             "firstlast_splicing streamed and materialised) alone and as zip(...) of two views of one object / "
             "tscale() inside the loop, and through the Coq model; (2) random schedules of next()/tscale() over "
             "1-6 views of one object (zip, random, sequential, nested, lone-tail patterns) compared event by "
             "event (output, wg.iw, number of distinct amplitude buffers) with the Coq state machine; "
             "(3) the triples' arguments given as 11 NumPy/float representations (all three / only ns), every "
             "observation compared with the same Coq model as for Python ints; (4) slice_array(sig, axis) on 2-D arrays "
             "(axis 0/1/-1/-2, 1-3 columns, six dtypes incl. a plain list) against the model's take_axis, on 1-D and 3-D "
             "arrays along every axis against plain indexing, wg.slice used for indexing, tscale(fs) at power-of-two rates "
             "compared exactly (rational) with the model and at seven other rates within 1e-14; "
             "non-trivial = more than one window (triples) / two or more views advanced and more than one "
             "window yielded (schedules); distinct by triple / by (triple, views, schedule)",
        samples=smp, evaluations=sum(counts.values()), distinct_nontrivial=nontrivial,
        extra={"input_distribution": fam["triple"], "schedule_distribution": sd, "representation_runs": fam["repr"],
               "views_distribution": fam["views"],
               "evaluations_by_family": {"triples": counts["triple"], "schedules": counts["sched"],
                                         "representations": counts["repr"], "views": counts["views"]},
               "worker_processes": nproc, "exhaustive": False, "box_exhaustive": bool(ctx.thorough())},
        assumptions=["Python float arithmetic is IEEE-754 binary64 as formalised by Flocq (operands below 2^53)",
                     ])


def _replay(ctx, data):
    inp = data.get("input") or (data.get("correspondence_disagreements") or [{}])[0].get("input")
    if not inp:
        print(json.dumps(data, indent=1)[:3000])
        return 1
    ns, w, o = inp["ns"], inp["nswin"], inp["overlap"]
    mode = inp.get("mode", "triple")
    try:
        if mode == "schedule":
            trace, per_view, problems = run_schedule_impl(ns, w, o, inp["kinds"], inp["events"])
            print("views:", [KIND_NAMES[k] for k in inp["kinds"]], "events (-1 = tscale):", inp["events"])
            print("implementation trace (per event: output, iw, distinct amplitude buffers):", trace[:200])
            print("wg.iw differed from the position of the view that had just yielded:", ("iw_ahead", None) in problems)
            problems = [p for p in problems if p[0] != "iw_ahead"]
            print("problems seen on the implementation:", problems)
            ids = common.coq_mismatches(PROP, HEADER, [common.flat_cases_term(
                0, [ns, w, o, 2, len(inp["kinds"])] + inp["kinds"] + inp["events"], trace)])
            print("kernel-evaluated state machine agrees with implementation:", not ids)
            return 1 if (ids or problems) else 0
        if mode == "views":
            (i4, o4), (i5, o5), problems = views_impl(ns, w, o, inp["axis"], inp["ncols"], inp["dtype"],
                                                      tuple(inp["fs_exact"]), inp["fs_other"], inp["seed"])
            print("slice_array trace (windows, then rows, cols, data per window):", o4[:80])
            print("problems seen on the implementation:", problems)
            ids = common.coq_mismatches(PROP, HEADER, [common.flat_cases_term(0, i4, o4), common.flat_cases_term(1, i5, o5)])
            print("kernel-evaluated model agrees (0 = slice_array, 1 = tscale at fs=%s/%s): disagreeing ids %s" % (
                inp["fs_exact"][0], inp["fs_exact"][1], ids))
            return 1 if (ids or problems) else 0
        if mode == "repr":
            obs = impl_observe(ns, w, o, False, inp["repr"], inp["which"], interleave=False)
            ref = impl_observe(ns, w, o, False, interleave=False)
            bad = oracle(obs)
            print("arguments as %s (%s): nwin=%d, windows produced=%d; as int: nwin=%d" % (
                inp["repr"], inp["which"], obs["nwin"], len(obs["fl"]), ref["nwin"]))
            print("property clauses failing on the implementation:", bad)
            ids = common.coq_mismatches(PROP, HEADER, [common.flat_cases_term(0, enc_inp(obs), enc_obs(obs))])
            print("kernel-evaluated model (same as for Python ints) agrees with implementation:", not ids)
            same = all(obs[k] == ref[k] for k in ("nwin", "fl", "valid", "ts", "slices"))
            return 1 if (bad or ids or not same) else 0
        obs = impl_observe(ns, w, o, ns <= 5000)
    except BaseException as e:
        print("implementation raised:", repr(e))
        return 1
    bad = oracle(obs)
    soft = soft_checks(obs)
    print("implementation:", {k: (v if not isinstance(v, list) else v[:6]) for k, v in obs.items()})
    print("property clauses failing on the implementation:", bad)
    print("other differences:", soft)
    ids = common.coq_mismatches(PROP, HEADER, [common.flat_cases_term(0, enc_inp(obs), enc_obs(obs))])
    print("kernel-evaluated model agrees with implementation:", not ids)
    return 1 if (bad or soft or ids) else 0


def replay(ctx, data):
    ok, rc = guarded(_replay, ctx, data)
    if not ok:
        print("implementation:", why(rc))
        return 1
    return rc
