#!/bin/bash
# Builds the whole Coq development (full .vo build) and the extracted models. Offline.
set -e
cd "$(dirname "$0")/coq"
mkdir -p _gen _build
coq_makefile -f _CoqProject -o Makefile
timeout 7000 make -j"$(nproc)" 2>&1 | grep -v "^Closed under\|^COQ\|^Axioms:\|^  " || true
make -j"$(nproc)" >/dev/null   # fail here if anything is broken
echo "coq build ok"
