#!/bin/bash
# Builds the whole Coq development (full .vo build, never -vos) and the extracted models. Offline.
set -e
cd "$(dirname "$0")"
mkdir -p work/gen work/build evidence
PYTHONPATH=harness /venv/bin/python - <<'PY'
import sys, common
ok, out = common.coq_make([], timeout=7000)
lines = [l for l in out.splitlines() if not l.startswith(("Closed under", "COQC", "COQDEP", "Axioms:", "  "))]
print("\n".join(lines[-40:]))
sys.exit(0 if ok else 1)
PY
echo "coq build ok"
