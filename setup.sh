#!/bin/bash
# Builds the Coq development of every claimed property (full .vo build, never -vos) and the
# extracted models. Offline.
set -e
cd "$(dirname "$0")"
mkdir -p work/gen work/build evidence
PYTHONPATH=harness /venv/bin/python - <<'PY'
import json, sys, common
from pathlib import Path
props = [c["property_id"] for c in json.loads((common.VERIF / "MANIFEST.json").read_text())["checks"]]
targets = []
for p in props:
    for m in ("Props", "Run"):
        if (common.COQ / p / (m + ".v")).exists():
            targets.append("%s/%s.vo" % (p, m))
ok, out = common.coq_make(targets, timeout=7000)
lines = [l for l in out.splitlines() if not l.startswith(("Closed under", "COQC", "COQDEP", "Axioms:", "  "))]
print("\n".join(lines[-40:]))
if not ok:
    sys.exit(1)
# extracted models (built on demand by the checks too; doing it here keeps the first quick run short)
for p in props:
    src = (common.VERIF / "harness" / ("p%s.py" % p)).read_text()
    if "engine=\"coq\"" in src and "Extracted(" not in src:
        continue
    try:
        common.Extracted(p)
        print("extracted", p)
    except Exception as e:      # a property whose harness does not use the extracted model
        print("no extraction for", p, "-", str(e)[:200].replace("\n", " "))
PY
echo "coq build ok"
