#!/usr/bin/env python3
"""Regenerates /verif/MANIFEST.json from tools/manifest_data.json (checks claimed and
not_applicable reasons) and validates it against the schema."""
import json
from pathlib import Path
V = Path(__file__).resolve().parent.parent
data = json.loads((V / "tools" / "manifest_data.json").read_text())
props = [json.loads(l)["id"] for l in (V / "properties.jsonl").read_text().splitlines() if l.strip()]
checks = []
for pid in props:
    c = data["checks"].get(pid)
    pm = V / "harness" / ("p%s.manifest.json" % pid)
    if pid in data.get("claimed", []) and pm.exists():
        c = json.loads(pm.read_text())
        data["checks"][pid] = c
    if not c:
        continue
    checks.append({
        "property_id": pid,
        "quick_cmd": "./check %s --tier quick" % pid,
        "thorough_cmd": "./check %s --tier thorough" % pid,
        "evidence_file": "/verif/evidence/%s.json" % pid,
        "replay_cmd_template": "./check %s --replay {path}" % pid,
        "engine": "coq+correspondence",
        "level_claimed": {"category": "proof", "text": c["text"], "design_ref": "DESIGN.md §6 " + pid},
        "level_note": c["note"],
        "technique": c.get("technique", "machine-checked proof in Coq 8.16 of a hand-written model + differential correspondence check against /repo/src"),
    })
na = [{"property_id": p, "reason": data["not_applicable"].get(p, "check not built yet in this round (see DESIGN.md §10)")}
      for p in props if p not in data["checks"]]
m = {
    "version": 1,
    "setup_cmd": "cd /verif && ./setup.sh",
    "hooks": {"guard": "IBLNPX_VERIF", "enable": "no source hooks: checks import /repo/src as is (PYTHONPATH), fault injection and the pyfftw stand-in are applied from the harness process",
              "baseline_off_cmd": "cd /repo && /venv/bin/python -m pytest -ra -q -p no:cacheprovider --timeout=900 --continue-on-collection-errors",
              "source_commits": [], "add_only": True},
    "engines": [{"name": "coq+correspondence", "path": "/verif/coq + /verif/harness",
                 "serves_properties": [c["property_id"] for c in checks],
                 "kind_free_text": "Coq 8.16.1 proofs about hand-written Gallina models (coq/<id>/Model.v, Proofs.v, Props.v); models tied to /repo/src on every run by a correspondence check (extracted OCaml model and kernel vm_compute vs the implementation) plus a property oracle on the implementation"}],
    "checks": checks,
    "notes": data.get("notes", ""),
    "not_applicable": na,
}
(V / "MANIFEST.json").write_text(json.dumps(m, indent=1) + "\n")
try:
    import jsonschema
    jsonschema.validate(m, json.loads(Path("/root/.vp/MANIFEST.schema.json").read_text()))
    print("MANIFEST.json valid;", len(checks), "checks,", len(na), "not_applicable")
except ImportError:
    print("written (jsonschema not available to validate)")
