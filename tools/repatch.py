#!/usr/bin/env python3
"""repatch.py <file> <old-file> <new-file>: exact one-occurrence replacement preserving CRLF/LF."""
import sys
p, fo, fn = sys.argv[1:4]
s = open(p, newline='').read()
crlf = '\r\n' in s
old = open(fo).read(); new = open(fn).read()
if crlf:
    old = old.replace('\r\n', '\n').replace('\n', '\r\n'); new = new.replace('\r\n', '\n').replace('\n', '\r\n')
n = s.count(old)
if n != 1:
    sys.exit("expected exactly one occurrence, found %d" % n)
open(p, 'w', newline='').write(s.replace(old, new))
print("patched", p, "(CRLF)" if crlf else "(LF)")
