#!/usr/bin/env python3
"""seed_matrix.py [--only Cxx ...] [--tier quick] [--jobs N] [--redo]
Runs the registered check of each seeded change's property against a scratch worktree with the
change applied (tools/seedtest.sh), records seeded/<name>/detect.json and rewrites
seeded/RESULTS.md (which checks catch which changes)."""
import json, subprocess, sys, re
from concurrent.futures import ThreadPoolExecutor
from pathlib import Path
V = Path(__file__).resolve().parent.parent
S = V / "seeded"
args = sys.argv[1:]
only, tier, jobs, redo = set(), "quick", 3, False
i = 0
while i < len(args):
    if args[i] == "--only":
        i += 1
        while i < len(args) and not args[i].startswith("--"):
            only.add(args[i]); i += 1
        continue
    if args[i] == "--tier": tier = args[i + 1]; i += 2; continue
    if args[i] == "--jobs": jobs = int(args[i + 1]); i += 2; continue
    if args[i] == "--redo": redo = True; i += 1; continue
    i += 1
manifest = json.loads((V / "MANIFEST.json").read_text())
claimed = {c["property_id"] for c in manifest["checks"]}
todo = []
for d in sorted(S.iterdir()):
    if not (d / "patch.diff").exists():
        continue
    meta = json.loads((d / "meta.json").read_text()) if (d / "meta.json").exists() else {}
    prop = meta.get("property") or re.search(r"C\d\d", d.name).group(0)
    prop = re.search(r"C\d\d", prop).group(0)
    if only and prop not in only:
        continue
    if not (V / "harness" / ("p%s.py" % prop)).exists():
        continue
    if (d / "detect.json").exists() and not redo:
        continue
    todo.append((d, prop))

def one(t):
    d, prop = t
    p = subprocess.run([str(V / "tools" / "seedtest.sh"), d.name, prop, tier], stdout=subprocess.PIPE,
                       stderr=subprocess.STDOUT, text=True)
    out = p.stdout
    viol = [l for l in out.splitlines() if l.startswith("VIOLATION")]
    err = [l for l in out.splitlines() if l.startswith("CHECK-ERROR") or "does not apply" in l]
    res = {"property": prop, "tier": tier, "detected": bool(viol),
           "with_failing_input": bool(viol) and "no-failing-input-found" not in viol[0],
           "violation_line": viol[0] if viol else None, "error": err[0] if err else None,
           "summary_line": out.strip().splitlines()[-1] if out.strip() else ""}
    (d / "detect.json").write_text(json.dumps(res, indent=1))
    print(d.name, res["detected"], res["summary_line"][:150], flush=True)
    return res

with ThreadPoolExecutor(max_workers=jobs) as ex:
    list(ex.map(one, todo))

rows = []
for d in sorted(S.iterdir()):
    if (d / "detect.json").exists():
        r = json.loads((d / "detect.json").read_text())
        meta = json.loads((d / "meta.json").read_text()) if (d / "meta.json").exists() else {}
        rows.append("| %s | %s | %s | %s | %s |" % (
            d.name, r["property"], (meta.get("summary") or "")[:110].replace("|", "/").replace("\n", " "),
            "yes" + ("" if r["with_failing_input"] else " (no-failing-input-found)") if r["detected"] else
            ("ERROR " + str(r["error"]) if r["error"] else "**MISSED**"), r["tier"]))
(S / "RESULTS.md").write_text(
    "# Seeded breaking changes vs. the registered checks\n\n"
    "Each row: a change kept under seeded/<name>/ (patch.diff, demo.py, meta.json, confirm.json), the property it\n"
    "breaks, and whether `./check <property> --tier <tier>` run against a tree with the change applied printed a\n"
    "VIOLATION line (tools/seedtest.sh; output kept as seeded/<name>/check_*.txt).\n\n"
    "| change | property | what | detected | tier |\n|---|---|---|---|---|\n" + "\n".join(rows) + "\n")
print("rows:", len(rows))
