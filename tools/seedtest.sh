#!/bin/bash
# usage: seedtest.sh <seeded-dir-name> <prop> [tier]
# Applies seeded/<dir>/patch.diff to a scratch worktree of /repo HEAD (so that /repo itself
# is not disturbed while other work is using it), runs the check against it (evidence
# redirected to a scratch dir so that committed evidence is not overwritten), removes the
# worktree.  With SEED_INPLACE=1 the patch is applied to /repo itself and reverted afterwards.
set -u
d="/verif/seeded/$1"; prop="$2"; tier="${3:-quick}"
ev=$(mktemp -d /tmp/seedev_XXXX)
if [ "${SEED_INPLACE:-0}" = 1 ]; then
  cd /repo || exit 2
  git diff --quiet || { echo "repo dirty, refusing"; exit 2; }
  git apply "$d/patch.diff" || { echo "patch does not apply"; exit 2; }
  (cd /verif && IBLNPX_EVID="$ev" ./check "$prop" --tier "$tier" 2>&1 | tail -6) | tee "$d/check_${prop}_${tier}.txt"
  git -C /repo checkout -- .
else
  w=$(mktemp -d /tmp/seedrun_XXXX); rmdir "$w"
  git -C /repo worktree add -q --detach "$w" HEAD || exit 2
  (cd "$w" && git apply "$d/patch.diff") || { echo "patch does not apply"; git -C /repo worktree remove --force "$w"; exit 2; }
  (cd /verif && IBLNPX_EVID="$ev" IBLNPX_REPO="$w" ./check "$prop" --tier "$tier" 2>&1 | tail -6) | sed "s#$w#/repo#g" | tee "$d/check_${prop}_${tier}.txt"
  git -C /repo worktree remove --force "$w"
fi
if [ -d "$ev/replays" ]; then mkdir -p "$d/replays"; cp "$ev"/replays/* "$d/replays/" 2>/dev/null; fi
rm -rf "$ev"
