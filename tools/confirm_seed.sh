#!/bin/bash
# usage: confirm_seed.sh <dir with patch.diff demo.py meta.json> <seeded-name>
# Confirms an independently produced breaking change in a scratch worktree of /repo HEAD:
#   demo passes on the untouched tree, fails with the patch; the pinned suite's stable tests
#   still pass with the patch.  On success copies it to /verif/seeded/<name>/ with confirm.json.
set -u
src="$1"; name="$2"
w=$(mktemp -d /tmp/seedconf_XXXX); rmdir "$w"
t=$(mktemp -d /tmp/seedtmp_XXXX)
git -C /repo worktree add -q --detach "$w" HEAD || exit 2
export PYTHONHASHSEED=0 PYTHONDONTWRITEBYTECODE=1 TMPDIR="$t"
cp "$src"/*.py "$t/"
(cd "$t" && PYTHONPATH="$w/src" timeout 1200 /venv/bin/python demo.py > "$t/demo_clean.log" 2>&1); rc_clean=$?
(cd "$w" && git apply "$src/patch.diff") || { echo "patch does not apply"; git -C /repo worktree remove --force "$w"; rm -rf "$t"; exit 2; }
(cd "$t" && PYTHONPATH="$w/src" timeout 1200 /venv/bin/python demo.py > "$t/demo_patched.log" 2>&1); rc_patched=$?
(cd "$w" && PYTHONPATH="$w/src" timeout 3000 /venv/bin/python -m pytest -ra -q -p no:cacheprovider --timeout=900 --continue-on-collection-errors --junitxml="$t/junit.xml" > "$t/pytest.log" 2>&1)
/venv/bin/python - "$t/junit.xml" "$rc_clean" "$rc_patched" "$name" "$src" <<'PY'
import json, sys, xml.etree.ElementTree as ET, shutil, os
junit, rc_clean, rc_patched, name, src = sys.argv[1:6]
base = json.load(open('/root/.vp/BASELINE.json'))
stable = set(base['stable_pass'])
passed = set()
for tc in ET.parse(junit).getroot().iter('testcase'):
    nm = tc.get('classname') + '::' + tc.get('name')
    if not any(ch.tag in ('failure', 'error', 'skipped') for ch in tc):
        passed.add(nm)
missing = sorted(stable - passed)
ok = (int(rc_clean) == 0 and int(rc_patched) != 0 and not missing)
res = {"demo_exit_untouched": int(rc_clean), "demo_exit_patched": int(rc_patched),
       "stable_tests_passing_with_patch": len(stable & passed), "stable_tests_total": len(stable),
       "stable_tests_broken_by_patch": missing, "confirmed": ok,
       "ran": "tools/confirm_seed.sh: scratch worktree of /repo HEAD; demo.py with PYTHONPATH=<tree>/src before and after `git apply patch.diff`; pinned pytest command with private TMPDIR"}
print(name, json.dumps(res))
if ok:
    d = '/verif/seeded/' + name
    os.makedirs(d, exist_ok=True)
    for f in os.listdir(src):
        if f.endswith(('.py', '.diff', '.json')) and os.path.isfile(os.path.join(src, f)):
            shutil.copy(os.path.join(src, f), d)
    json.dump(res, open(d + '/confirm.json', 'w'), indent=1)
PY
git -C /repo worktree remove --force "$w"; rm -rf "$t"
