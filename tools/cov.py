#!/usr/bin/env python3
"""Coverage audit of a check:  tools/cov.py Cxx [tier]

Runs ./check Cxx under coverage.py (branch mode, sub-processes included), against
/repo's working tree, with evidence redirected to a scratch directory, and prints for
every function the property is anchored in (properties.jsonl: anchors.mechanism[].where)
the lines and branch arcs the check never executed.  It is a diagnostic of the generator
("which parts of the anchored code does the correspondence never drive"), not a check:
nothing registered in MANIFEST.json depends on it.  Output: work/cov/Cxx.txt
"""
import ast
import json
import os
import re
import shutil
import subprocess
import sys
import tempfile

HERE = os.path.dirname(os.path.dirname(os.path.abspath(__file__)))
REPO = os.environ.get("IBLNPX_REPO", "/repo")


def anchors(prop):
    for line in open(os.path.join(HERE, "properties.jsonl")):
        p = json.loads(line)
        if p["id"] == prop:
            out = {}
            for m in p["anchors"]["mechanism"]:
                cur = None
                for part in re.split(r";", m["where"]):
                    part = part.strip()
                    if ":" in part:
                        cur, names = part.split(":", 1)
                    else:
                        names = part
                    for n in re.split(r",|/|->", names):
                        n = re.sub(r"\(.*?\)", "", n).strip()
                        if n:
                            out.setdefault(cur.strip(), set()).add(n)
            return out
    raise SystemExit("unknown property")


def func_ranges(path, names):
    src = open(path, encoding="utf-8").read()
    tree = ast.parse(src)
    res = {}

    def visit(node, prefix):
        for ch in ast.iter_child_nodes(node):
            if isinstance(ch, (ast.FunctionDef, ast.ClassDef)):
                q = prefix + ch.name
                for n in names:
                    base = n.split(".")
                    # accept "Class.meth", "meth", "mod.func", "outer.inner"
                    if q == n or q.endswith("." + n) or ch.name == base[-1] and (
                            len(base) == 1 or q.endswith(".".join(base[-2:]))):
                        if isinstance(ch, ast.FunctionDef) or len(base) == 1:
                            res[q] = (ch.lineno, ch.end_lineno)
                visit(ch, q + ".")
            else:
                visit(ch, prefix)
    visit(tree, "")
    # module-level names (constants such as CHANNEL_GRID)
    return res, src.splitlines()


def main():
    prop = sys.argv[1]
    tier = sys.argv[2] if len(sys.argv) > 2 else "quick"
    tmp = tempfile.mkdtemp(prefix="cov_%s_" % prop)
    try:
        rc = os.path.join(tmp, "coveragerc")
        open(rc, "w").write(
            "[run]\nbranch = True\nparallel = True\nsigterm = True\nconcurrency = multiprocessing,thread\n"
            "data_file = %s/.coverage\nsource =\n    %s/src\n" % (tmp, REPO))
        site = os.path.join(tmp, "site")
        os.makedirs(site)
        open(os.path.join(site, "sitecustomize.py"), "w").write(
            "import coverage\ncoverage.process_startup()\n")
        env = dict(os.environ)
        env.update({
            "PYTHONHASHSEED": "0", "PYTHONDONTWRITEBYTECODE": "1", "IBLNPX_VERIF": "1",
            "PYTHONPATH": "%s:%s/harness/stubs:%s/src:%s/harness" % (site, HERE, REPO, HERE),
            "IBLNPX_EVID": os.path.join(tmp, "evid"), "COVERAGE_PROCESS_START": rc,
            "OMP_NUM_THREADS": "1", "OPENBLAS_NUM_THREADS": "1", "MKL_NUM_THREADS": "1",
        })
        os.makedirs(env["IBLNPX_EVID"])
        p = subprocess.run(["/venv/bin/python", "-m", "coverage", "run", "--rcfile", rc,
                            os.path.join(HERE, "harness/main.py"), prop, "--tier", tier],
                           env=env, stdout=subprocess.PIPE, stderr=subprocess.STDOUT, text=True)
        tail = p.stdout.strip().splitlines()[-3:]
        subprocess.run(["/venv/bin/python", "-m", "coverage", "combine", "--rcfile", rc],
                       env=env, stdout=subprocess.DEVNULL, stderr=subprocess.DEVNULL)
        js = os.path.join(tmp, "cov.json")
        subprocess.run(["/venv/bin/python", "-m", "coverage", "json", "--rcfile", rc, "-o", js],
                       env=env, stdout=subprocess.DEVNULL, stderr=subprocess.DEVNULL)
        cov = json.load(open(js))["files"]
        lines = ["coverage audit %s tier=%s exit=%d" % (prop, tier, p.returncode)] + \
                ["  | " + t for t in tail]
        for f, names in sorted(anchors(prop).items()):
            path = os.path.join(REPO, f)
            ranges, src = func_ranges(path, names)
            fc = None
            for k, v in cov.items():
                if os.path.abspath(k) == os.path.abspath(path) or k.endswith(f):
                    fc = v
            for n in sorted(names):
                if not any(q == n or q.endswith("." + n.split(".")[-1]) for q in ranges):
                    lines.append("%s: anchor %r not resolved to a def" % (f, n))
            for q, (a, b) in sorted(ranges.items(), key=lambda kv: kv[1]):
                if fc is None:
                    lines.append("%s:%s NEVER IMPORTED" % (f, q))
                    continue
                miss = [l for l in fc["missing_lines"] if a <= l <= b]
                arcs = [x for x in fc.get("missing_branches", []) if a <= x[0] <= b]
                ex = [l for l in fc["executed_lines"] if a <= l <= b]
                lines.append("%s:%s [%d-%d] executed %d, missed %d lines, %d branch arcs"
                             % (f, q, a, b, len(ex), len(miss), len(arcs)))
                for l in miss:
                    lines.append("    L%-5d %s" % (l, src[l - 1].rstrip()))
                for x in arcs:
                    if x[0] not in miss:
                        lines.append("    arc %d->%d never taken:  %s" % (x[0], x[1], src[x[0] - 1].strip()))
        out = os.path.join(HERE, "work", "cov")
        os.makedirs(out, exist_ok=True)
        open(os.path.join(out, prop + ".txt"), "w").write("\n".join(lines) + "\n")
        print("\n".join(lines))
    finally:
        shutil.rmtree(tmp, ignore_errors=True)


if __name__ == "__main__":
    main()
